// Package fw is the framework shared by every check: deterministic PRNG, per-case result
// records, the parent/child process runner, the known-findings matcher and the evidence writer.
package fw

import "hash/fnv"

// Rng is a splitmix64 stream. All random choices of the harness come from streams derived
// from VERIF_SEED, the property id and the case index, so a case can be re-run alone.
type Rng struct{ s uint64 }

// NewRng returns a stream seeded with s
func NewRng(s uint64) *Rng { return &Rng{s: s} }

// Derive returns the seed of a sub-stream identified by the given labels
func Derive(seed uint64, labels ...string) uint64 {
	h := fnv.New64a()
	var b [8]byte
	for i := 0; i < 8; i++ {
		b[i] = byte(seed >> (8 * i))
	}
	_, _ = h.Write(b[:])
	for _, l := range labels {
		_, _ = h.Write([]byte{0})
		_, _ = h.Write([]byte(l))
	}
	r := NewRng(h.Sum64())
	return r.U64()
}

// U64 returns the next 64 random bits
func (r *Rng) U64() uint64 {
	r.s += 0x9e3779b97f4a7c15
	z := r.s
	z = (z ^ (z >> 30)) * 0xbf58476d1ce4e5b9
	z = (z ^ (z >> 27)) * 0x94d049bb133111eb
	return z ^ (z >> 31)
}

// Intn returns a value in [0,n)
func (r *Rng) Intn(n int) int {
	if n <= 0 {
		return 0
	}
	return int(r.U64() % uint64(n))
}

// Chance returns true with probability num/den
func (r *Rng) Chance(num, den int) bool { return r.Intn(den) < num }

// Pick returns one of the strings
func (r *Rng) Pick(xs []string) string { return xs[r.Intn(len(xs))] }

// Perm returns a permutation of 0..n-1
func (r *Rng) Perm(n int) []int {
	p := make([]int, n)
	for i := range p {
		p[i] = i
	}
	for i := n - 1; i > 0; i-- {
		j := r.Intn(i + 1)
		p[i], p[j] = p[j], p[i]
	}
	return p
}

// Fork returns an independent stream derived from this one and a label
func (r *Rng) Fork(label string) *Rng { return NewRng(Derive(r.U64(), label)) }
