package fw

import (
	"bufio"
	"encoding/json"
	"fmt"
	"os"
	"os/exec"
	"path/filepath"
	"regexp"
	"runtime"
	"runtime/debug"
	"sort"
	"strings"
	"sync"
	"syscall"
	"time"
)

// Violation is one oracle verdict against the system under test
type Violation struct {
	Oracle string      `json:"oracle"`
	Key    string      `json:"key"` // fine-grained cause, matched against known_findings.json
	Msg    string      `json:"msg"`
	Detail interface{} `json:"detail,omitempty"`
}

// CaseResult is what a child process reports for one case
type CaseResult struct {
	Index        int                 `json:"index"`
	CaseSeed     uint64              `json:"case_seed"`
	Class        string              `json:"class,omitempty"`
	Trivial      bool                `json:"trivial,omitempty"`
	Counters     map[string]int64    `json:"counters,omitempty"`
	Sets         map[string][]string `json:"sets,omitempty"`
	Violations   []Violation         `json:"violations,omitempty"`
	Inconclusive string              `json:"inconclusive,omitempty"`
	Sample       interface{}         `json:"sample,omitempty"`
	Trace        []string            `json:"trace,omitempty"`
	WallMs       int64               `json:"wall_ms"`
}

// Case is handed to a check's Run function
type Case struct {
	Prop  string
	Tier  string
	Seed  uint64
	Index int
	Rng   *Rng
	mu    sync.Mutex
	res   *CaseResult
	sets  map[string]map[string]bool
}

// Count adds n to a named counter
func (c *Case) Count(name string, n int64) {
	c.mu.Lock()
	c.res.Counters[name] += n
	c.mu.Unlock()
}

// Distinct records a member of a named set; the parent reports the cardinality of the union
func (c *Case) Distinct(set, member string) {
	c.mu.Lock()
	m := c.sets[set]
	if m == nil {
		m = map[string]bool{}
		c.sets[set] = m
	}
	if len(m) < 5000 {
		m[member] = true
	}
	c.mu.Unlock()
}

// Class sets the shape class of the case
func (c *Case) Class(s string) { c.mu.Lock(); c.res.Class = s; c.mu.Unlock() }

// Trivial marks the case as trivial (does not count toward distinct_nontrivial)
func (c *Case) Trivial() { c.mu.Lock(); c.res.Trivial = true; c.mu.Unlock() }

// Violate records a violation
func (c *Case) Violate(oracle, key, msg string, detail interface{}) {
	c.mu.Lock()
	if len(c.res.Violations) < 20 {
		c.res.Violations = append(c.res.Violations, Violation{Oracle: oracle, Key: key, Msg: msg, Detail: detail})
	}
	c.mu.Unlock()
}

// Violated tells whether the case already has a violation
func (c *Case) Violated() bool { c.mu.Lock(); defer c.mu.Unlock(); return len(c.res.Violations) > 0 }

// Inconclusive marks the case inconclusive (infrastructure watchdog)
func (c *Case) Inconclusive(msg string) { c.mu.Lock(); c.res.Inconclusive = msg; c.mu.Unlock() }

// Sample attaches a written-out description of the case
func (c *Case) Sample(v interface{}) { c.mu.Lock(); c.res.Sample = v; c.mu.Unlock() }

// Tracef appends a line to the case trace (dumped into replay files)
func (c *Case) Tracef(format string, args ...interface{}) {
	c.mu.Lock()
	if len(c.res.Trace) < 4000 {
		c.res.Trace = append(c.res.Trace, fmt.Sprintf(format, args...))
	}
	c.mu.Unlock()
}

// Check describes one property check
type Check struct {
	ID          string
	Level       string // exploration | fault_enumeration
	Race        bool   // needs the -race binary
	Cases       func(tier string) int
	Run         func(c *Case)
	Rule        string
	Assumptions []string
	Floors      map[string]int64 // minimum totals of counters in the quick tier (vacuity guards)
	Parallel    int
	PerChild    int
	CaseTimeout time.Duration
	Exhaustive  bool
	DistinctSet string // set whose union size is reported as distinct_nontrivial (default: classes of non-trivial cases)
	Technique   string
}

var registry = map[string]*Check{}

// Register adds a check
func Register(c *Check) { registry[c.ID] = c }

// Lookup finds a check
func Lookup(id string) *Check { return registry[id] }

// All returns all registered ids
func All() []string {
	var ids []string
	for id := range registry {
		ids = append(ids, id)
	}
	sort.Strings(ids)
	return ids
}

// ---------------------------------------------------------------- child side

// RunChild executes cases [from,to) and writes one JSON line per case to out
func RunChild(ck *Check, tier string, seed uint64, from, to int, out string) error {
	f, err := os.OpenFile(out, os.O_CREATE|os.O_WRONLY|os.O_APPEND, 0o644)
	if err != nil {
		return err
	}
	defer f.Close()
	w := bufio.NewWriter(f)
	for i := from; i < to; i++ {
		fmt.Fprintf(w, "{\"begin\":%d}\n", i)
		_ = w.Flush()
		res := RunCase(ck, tier, seed, i)
		b, err := json.Marshal(res)
		if err != nil {
			res.Sample = nil
			res.Violations = append(res.Violations, Violation{Oracle: "harness", Key: "harness/marshal", Msg: err.Error()})
			b, _ = json.Marshal(res)
		}
		_, _ = w.Write(b)
		_, _ = w.WriteString("\n")
		_ = w.Flush()
	}
	return nil
}

// HarnessPanicKey extracts the top frame inside onos-config from a stack
func HarnessPanicKey(stack string) string {
	re := regexp.MustCompile(`github.com/onosproject/onos-config/(pkg/[^\s(]+)\.([A-Za-z0-9_().*]+)\(`)
	for _, line := range strings.Split(stack, "\n") {
		if m := re.FindStringSubmatch(line); m != nil {
			fn := m[2]
			return m[1] + "." + fn
		}
	}
	return ""
}

// RunCase runs one case in this process
func RunCase(ck *Check, tier string, seed uint64, index int) (res *CaseResult) {
	cs := Derive(seed, ck.ID, fmt.Sprint(index))
	res = &CaseResult{Index: index, CaseSeed: cs, Counters: map[string]int64{}}
	c := &Case{Prop: ck.ID, Tier: tier, Seed: seed, Index: index, Rng: NewRng(cs), res: res, sets: map[string]map[string]bool{}}
	start := time.Now()
	func() {
		defer func() {
			if r := recover(); r != nil {
				st := string(debug.Stack())
				site := HarnessPanicKey(st)
				if site == "" {
					c.Violate("harness", "harness/panic", fmt.Sprintf("panic in harness: %v", r), st)
				} else {
					c.Violate("panic", ck.ID+"/panic@"+site, fmt.Sprintf("panic: %v", r), st)
				}
			}
		}()
		ck.Run(c)
	}()
	res.WallMs = time.Since(start).Milliseconds()
	res.Sets = map[string][]string{}
	for name, m := range c.sets {
		for k := range m {
			res.Sets[name] = append(res.Sets[name], k)
		}
		sort.Strings(res.Sets[name])
	}
	return res
}

// ---------------------------------------------------------------- parent side

// KnownFinding is an entry of known_findings.json
type KnownFinding struct {
	ID          string `json:"id"`
	Property    string `json:"property"`
	Status      string `json:"status"` // open | fixed
	Key         string `json:"key"`    // exact violation key, or a prefix ending in '*'
	Commit      string `json:"commit,omitempty"`
	Description string `json:"description"`
}

func loadKnown(root string) []KnownFinding {
	b, err := os.ReadFile(filepath.Join(root, "known_findings.json"))
	if err != nil {
		return nil
	}
	var k struct {
		Findings []KnownFinding `json:"findings"`
	}
	if err := json.Unmarshal(b, &k); err != nil {
		fmt.Fprintf(os.Stderr, "known_findings.json unreadable: %v\n", err)
		return nil
	}
	return k.Findings
}

func matchKnown(known []KnownFinding, prop, key string) *KnownFinding {
	for i := range known {
		k := &known[i]
		if k.Status != "open" || k.Property != prop {
			continue
		}
		if k.Key == key || (strings.HasSuffix(k.Key, "*") && strings.HasPrefix(key, strings.TrimSuffix(k.Key, "*"))) {
			return k
		}
	}
	return nil
}

type chunk struct{ from, to int }

// RunParent runs a whole check by spawning children, aggregates, writes evidence and returns the exit code
func RunParent(ck *Check, root, tier string, seed uint64, only []int) int {
	start := time.Now()
	n := ck.Cases(tier)
	workDir := filepath.Join(root, "work", ck.ID)
	_ = os.RemoveAll(workDir)
	_ = os.MkdirAll(workDir, 0o755)
	par := ck.Parallel
	if par <= 0 {
		par = runtime.NumCPU()
	}
	if v := os.Getenv("VERIF_PAR"); v != "" {
		fmt.Sscan(v, &par)
	}
	per := ck.PerChild
	if per <= 0 {
		per = (n + par*4 - 1) / (par * 4)
		if per < 1 {
			per = 1
		}
		// a child is a fresh process with bounded memory: the real controllers, store watch pumps and the Atomix
		// test runtime leave goroutines behind that keep parts of every finished case alive
		if per > 12 {
			per = 12
		}
	}
	var chunks []chunk
	if len(only) > 0 {
		for _, i := range only {
			chunks = append(chunks, chunk{i, i + 1})
		}
	} else {
		for a := 0; a < n; a += per {
			b := a + per
			if b > n {
				b = n
			}
			chunks = append(chunks, chunk{a, b})
		}
	}
	caseTimeout := ck.CaseTimeout
	if caseTimeout == 0 {
		caseTimeout = 120 * time.Second
	}
	var mu sync.Mutex
	results := map[int]*CaseResult{}
	jobs := make(chan chunk, len(chunks)+1024)
	var pending sync.WaitGroup
	for _, c := range chunks {
		pending.Add(1)
		jobs <- c
	}
	var wg sync.WaitGroup
	exe, _ := os.Executable()
	childNo := 0
	for w := 0; w < par; w++ {
		wg.Add(1)
		go func() {
			defer wg.Done()
			for c := range jobs {
				mu.Lock()
				childNo++
				no := childNo
				mu.Unlock()
				out := filepath.Join(workDir, fmt.Sprintf("child-%d.jsonl", no))
				logf := filepath.Join(workDir, fmt.Sprintf("child-%d.log", no))
				lf, _ := os.Create(logf)
				cmd := exec.Command(exe, "child", "-prop", ck.ID, "-tier", tier, "-seed", fmt.Sprint(seed),
					"-from", fmt.Sprint(c.from), "-to", fmt.Sprint(c.to), "-out", out)
				cmd.Stdout = lf
				cmd.Stderr = lf
				cmd.Env = append(os.Environ(), "POD_ID=onos-config-0", "VERIF_WORK="+workDir, "GORACE=halt_on_error=0 log_path="+filepath.Join(workDir, fmt.Sprintf("race-%d", no)))
				timedOut := false
				if err := cmd.Start(); err != nil {
					fmt.Fprintf(os.Stderr, "cannot start child: %v\n", err)
					pending.Done()
					continue
				}
				// budget of a child: one case may use its whole time-out, the others a share (a hung case is noticed
				// after minutes, not after cases x time-out)
				timer := time.AfterFunc(caseTimeout+time.Duration(c.to-c.from)*25*time.Second+30*time.Second, func() {
					timedOut = true
					_ = cmd.Process.Signal(syscall.SIGQUIT)
					time.AfterFunc(5*time.Second, func() { _ = cmd.Process.Kill() })
				})
				err := cmd.Wait()
				timer.Stop()
				lf.Close()
				// read results
				done, begun := readResults(out)
				mu.Lock()
				for i, r := range done {
					results[i] = r
				}
				mu.Unlock()
				if err != nil || len(done) < c.to-c.from {
					// the child died: the case in progress is either a crash of the system under test or a watchdog
					last := -1
					for i := range begun {
						if _, ok := done[i]; !ok && i > last {
							last = i
						}
					}
					if last >= 0 {
						logTail := tail(logf, 200)
						r := &CaseResult{Index: last, CaseSeed: Derive(seed, ck.ID, fmt.Sprint(last)), Counters: map[string]int64{}}
						if timedOut {
							r.Inconclusive = "watchdog: child exceeded its wall-clock budget; goroutine dump in " + logf
						} else {
							site := HarnessPanicKey(logTail)
							key := ck.ID + "/crash@" + site
							if site == "" {
								key = "harness/child-died"
							}
							r.Violations = append(r.Violations, Violation{Oracle: "process-crash", Key: key,
								Msg: "the process running the system under test died while executing this case", Detail: logTail})
						}
						mu.Lock()
						results[last] = r
						mu.Unlock()
						if last+1 < c.to {
							pending.Add(1)
							jobs <- chunk{last + 1, c.to}
						}
					} else if len(done) < c.to-c.from {
						r := &CaseResult{Index: c.from, Counters: map[string]int64{}, Inconclusive: "child produced no output: " + tail(logf, 20)}
						mu.Lock()
						results[c.from] = r
						mu.Unlock()
					}
				}
				// race reports
				collectRaces(workDir, no, ck, &mu, results, c.from)
				pending.Done()
			}
		}()
	}
	pending.Wait()
	close(jobs)
	wg.Wait()
	return aggregate(ck, root, tier, seed, results, time.Since(start))
}

func collectRaces(workDir string, no int, ck *Check, mu *sync.Mutex, results map[int]*CaseResult, idx int) {
	files, _ := filepath.Glob(filepath.Join(workDir, fmt.Sprintf("race-%d.*", no)))
	for _, f := range files {
		b, err := os.ReadFile(f)
		if err != nil {
			continue
		}
		blocks := strings.Split(string(b), "WARNING: DATA RACE")
		for _, blk := range blocks[1:] {
			site := HarnessPanicKey(blk)
			key := ck.ID + "/race@" + site
			if site == "" {
				key = "harness/race"
			}
			if len(blk) > 6000 {
				blk = blk[:6000]
			}
			mu.Lock()
			r := results[idx]
			if r == nil {
				r = &CaseResult{Index: idx, Counters: map[string]int64{}}
				results[idx] = r
			}
			dup := false
			for _, v := range r.Violations {
				if v.Key == key {
					dup = true
				}
			}
			if !dup {
				r.Violations = append(r.Violations, Violation{Oracle: "race-detector", Key: key, Msg: "data race reported by the Go race detector", Detail: blk})
			}
			mu.Unlock()
		}
	}
}

func tail(path string, lines int) string {
	b, err := os.ReadFile(path)
	if err != nil {
		return ""
	}
	s := string(b)
	// prefer the part starting at the panic / fatal error
	for _, marker := range []string{"panic: ", "fatal error: "} {
		if i := strings.Index(s, marker); i >= 0 {
			s = s[i:]
			ls := strings.Split(s, "\n")
			if len(ls) > lines {
				ls = ls[:lines]
			}
			return strings.Join(ls, "\n")
		}
	}
	ls := strings.Split(s, "\n")
	if len(ls) > lines {
		ls = ls[len(ls)-lines:]
	}
	return strings.Join(ls, "\n")
}

func readResults(path string) (map[int]*CaseResult, map[int]bool) {
	done := map[int]*CaseResult{}
	begun := map[int]bool{}
	f, err := os.Open(path)
	if err != nil {
		return done, begun
	}
	defer f.Close()
	sc := bufio.NewScanner(f)
	sc.Buffer(make([]byte, 1<<20), 1<<28)
	for sc.Scan() {
		line := sc.Bytes()
		if strings.HasPrefix(string(line), "{\"begin\":") {
			var b struct {
				Begin int `json:"begin"`
			}
			if json.Unmarshal(line, &b) == nil {
				begun[b.Begin] = true
			}
			continue
		}
		var r CaseResult
		if json.Unmarshal(line, &r) == nil && r.Counters != nil {
			rr := r
			done[r.Index] = &rr
		}
	}
	return done, begun
}

// Evidence is the schema-conformant evidence document
type Evidence struct {
	PropertyID  string                 `json:"property_id"`
	Tier        string                 `json:"tier"`
	Seed        int64                  `json:"seed"`
	Level       string                 `json:"level"`
	Coverage    map[string]interface{} `json:"coverage"`
	Assumptions []string               `json:"assumptions"`
	WallS       float64                `json:"wall_s"`
	Violations  int                    `json:"violations"`
}

func aggregate(ck *Check, root, tier string, seed uint64, results map[int]*CaseResult, wall time.Duration) int {
	known := loadKnown(root)
	var idx []int
	for i := range results {
		idx = append(idx, i)
	}
	sort.Ints(idx)
	counters := map[string]int64{}
	sets := map[string]map[string]bool{}
	classes := map[string]bool{}
	var samples []interface{}
	inconclusive := 0
	var inconclusiveMsgs []string
	type viol struct {
		r *CaseResult
		v Violation
	}
	var newViolations []viol
	knownSeen := map[string]*KnownFinding{}
	knownCount := map[string]int{}
	harnessFailure := ""
	for _, i := range idx {
		r := results[i]
		for k, v := range r.Counters {
			counters[k] += v
		}
		for name, ms := range r.Sets {
			m := sets[name]
			if m == nil {
				m = map[string]bool{}
				sets[name] = m
			}
			for _, x := range ms {
				m[x] = true
			}
		}
		if r.Inconclusive != "" {
			inconclusive++
			if len(inconclusiveMsgs) < 5 {
				inconclusiveMsgs = append(inconclusiveMsgs, fmt.Sprintf("case %d: %s", r.Index, r.Inconclusive))
			}
		}
		if !r.Trivial && r.Class != "" && r.Inconclusive == "" {
			classes[r.Class] = true
		}
		if r.Sample != nil && len(samples) < 4 && !r.Trivial {
			samples = append(samples, map[string]interface{}{"case": r.Index, "case_seed": r.CaseSeed, "class": r.Class, "detail": r.Sample})
		}
		for _, v := range r.Violations {
			if strings.HasPrefix(v.Key, "harness/") {
				harnessFailure = fmt.Sprintf("case %d: %s: %s", r.Index, v.Key, v.Msg)
				writeReplay(root, ck, tier, seed, r, v)
				continue
			}
			if k := matchKnown(known, ck.ID, v.Key); k != nil {
				knownSeen[k.ID] = k
				knownCount[k.ID]++
				continue
			}
			newViolations = append(newViolations, viol{r, v})
		}
	}
	distinct := len(classes)
	if ck.DistinctSet != "" {
		distinct = len(sets[ck.DistinctSet])
	}
	setSizes := map[string]int{}
	for name, m := range sets {
		setSizes[name] = len(m)
	}
	if len(samples) == 0 {
		for _, i := range idx {
			if results[i].Sample != nil {
				samples = append(samples, map[string]interface{}{"case": i, "class": results[i].Class, "detail": results[i].Sample})
				break
			}
		}
	}
	if len(samples) == 0 {
		// no case wrote itself out: describe the first cases by what they counted
		for _, i := range idx {
			if len(samples) < 3 {
				samples = append(samples, map[string]interface{}{"case": i, "case_seed": results[i].CaseSeed, "class": results[i].Class, "observed": results[i].Counters})
			}
		}
	}
	if samples == nil {
		samples = []interface{}{}
	}
	cov := map[string]interface{}{
		"evaluations":         len(idx),
		"distinct_nontrivial": distinct,
		"rule":                ck.Rule,
		"samples":             samples,
		"counters":            counters,
		"distinct_sets":       setSizes,
		"inconclusive":        inconclusive,
		"exhaustive":          ck.Exhaustive,
	}
	if len(inconclusiveMsgs) > 0 {
		cov["inconclusive_samples"] = inconclusiveMsgs
	}
	var kf []string
	for id, k := range knownSeen {
		kf = append(kf, fmt.Sprintf("%s (%d occurrences): %s", id, knownCount[id], k.Description))
	}
	sort.Strings(kf)
	if len(kf) > 0 {
		cov["known_findings_observed"] = kf
	}
	floorsOK := true
	var floorMsgs []string
	if tier == "quick" || tier == "thorough" {
		for name, min := range ck.Floors {
			if counters[name] < min {
				floorsOK = false
				floorMsgs = append(floorMsgs, fmt.Sprintf("%s=%d < floor %d", name, counters[name], min))
			}
		}
	}
	cov["vacuity_floors"] = ck.Floors
	cov["vacuity_floors_met"] = floorsOK
	if ck.Assumptions == nil {
		ck.Assumptions = []string{}
	}
	ev := Evidence{PropertyID: ck.ID, Tier: tier, Seed: int64(seed), Level: ck.Level, Coverage: cov,
		Assumptions: ck.Assumptions, WallS: wall.Seconds(), Violations: len(newViolations)}
	if tier != "quick" && tier != "thorough" {
		ev.Tier = "quick"
	}
	_ = os.MkdirAll(filepath.Join(root, "evidence"), 0o755)
	b, _ := json.MarshalIndent(ev, "", " ")
	_ = os.WriteFile(filepath.Join(root, "evidence", ck.ID+".json"), append(b, '\n'), 0o644)

	fmt.Printf("%s tier=%s seed=%d: %d cases, %d distinct non-trivial, %d inconclusive, %.1fs\n", ck.ID, tier, seed, len(idx), distinct, inconclusive, wall.Seconds())
	var cn []string
	for k := range counters {
		cn = append(cn, k)
	}
	sort.Strings(cn)
	for _, k := range cn {
		fmt.Printf("  observed %-40s %d\n", k, counters[k])
	}
	for name, sz := range setSizes {
		fmt.Printf("  distinct %-40s %d\n", name, sz)
	}
	for _, k := range knownSeen {
		fmt.Printf("KNOWN-FINDING: property=%s %s [%s, %d occurrences]\n", ck.ID, k.Description, k.ID, knownCount[k.ID])
	}
	if len(newViolations) > 0 {
		seen := map[string]bool{}
		for _, nv := range newViolations {
			p := writeReplay(root, ck, tier, seed, nv.r, nv.v)
			if seen[nv.v.Key] {
				continue
			}
			seen[nv.v.Key] = true
			fmt.Printf("  violation in case %d [%s] %s: %s\n", nv.r.Index, nv.v.Oracle, nv.v.Key, firstLine(nv.v.Msg))
			fmt.Printf("VIOLATION property=%s replay=%s\n", ck.ID, p)
		}
		return 1
	}
	if harnessFailure != "" {
		fmt.Printf("HARNESS-FAILURE %s\n", harnessFailure)
		return 3
	}
	if len(idx) > 0 && inconclusive*50 > len(idx) && inconclusive > 1 {
		fmt.Printf("HARNESS-FAILURE too many inconclusive cases: %d of %d: %v\n", inconclusive, len(idx), inconclusiveMsgs)
		return 3
	}
	if !floorsOK {
		fmt.Printf("HARNESS-FAILURE observed too little: %v\n", floorMsgs)
		return 3
	}
	return 0
}

func firstLine(s string) string {
	if i := strings.Index(s, "\n"); i >= 0 {
		return s[:i]
	}
	return s
}

func writeReplay(root string, ck *Check, tier string, seed uint64, r *CaseResult, v Violation) string {
	dir := filepath.Join(root, "replays")
	_ = os.MkdirAll(dir, 0o755)
	p := filepath.Join(dir, fmt.Sprintf("%s-%s-s%d-c%d.json", ck.ID, tier, seed, r.Index))
	doc := map[string]interface{}{
		"property": ck.ID, "tier": tier, "seed": seed, "case": r.Index, "case_seed": r.CaseSeed,
		"violation": v, "all_violations": r.Violations, "class": r.Class, "scenario": r.Sample, "trace": r.Trace,
		"replay_cmd": fmt.Sprintf("bin/check %s replay %s", ck.ID, p),
	}
	b, _ := json.MarshalIndent(doc, "", " ")
	_ = os.WriteFile(p, b, 0o644)
	return p
}
