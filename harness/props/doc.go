// Package props holds one file per property check; each registers itself with fw.
package props
