package props

import (
	"context"
	"fmt"
	"sort"
	"strings"

	v3 "github.com/onosproject/onos-api/go/onos/config/v3"
	topoapi "github.com/onosproject/onos-api/go/onos/topo"
	ctlutils "github.com/onosproject/onos-config/pkg/controller/utils"
	cfg3ctl "github.com/onosproject/onos-config/pkg/controller/v3/configuration"
	mst3ctl "github.com/onosproject/onos-config/pkg/controller/v3/mastership"
	tx3ctl "github.com/onosproject/onos-config/pkg/controller/v3/transaction"
	cfg3 "github.com/onosproject/onos-config/pkg/store/v3/configuration"
	tx3 "github.com/onosproject/onos-config/pkg/store/v3/transaction"
	"github.com/onosproject/onos-lib-go/pkg/controller"

	"verif/fw"
	"verif/refmodel"
	"verif/world"
)

// crash sentinel: the decorated v3 stores panic with it just before the k-th write, which unwinds the
// stateless reconciler exactly where a process kill would have stopped it
type c20Crash struct{}

type c20TxStore struct {
	tx3.Store
	h *c20Harness
}

func (s *c20TxStore) Create(ctx context.Context, t *v3.Transaction) error {
	s.h.beforeWrite("tx.Create")
	return s.Store.Create(ctx, t)
}
func (s *c20TxStore) Update(ctx context.Context, t *v3.Transaction) error {
	s.h.beforeWrite("tx.Update")
	return s.Store.Update(ctx, t)
}
func (s *c20TxStore) UpdateStatus(ctx context.Context, t *v3.Transaction) error {
	s.h.beforeWrite("tx.UpdateStatus")
	return s.Store.UpdateStatus(ctx, t)
}

type c20CfgStore struct {
	cfg3.Store
	h *c20Harness
}

func (s *c20CfgStore) Update(ctx context.Context, c *v3.Configuration) error {
	s.h.beforeWrite("cfg.Update")
	return s.Store.Update(ctx, c)
}
func (s *c20CfgStore) UpdateStatus(ctx context.Context, c *v3.Configuration) error {
	s.h.beforeWrite("cfg.UpdateStatus")
	return s.Store.UpdateStatus(ctx, c)
}

type c20Event struct {
	Phase  string // Change Rollback
	Event  string // Commit Apply
	Index  uint64
	Status string
}

type c20Harness struct {
	c                                      *fw.Case
	w                                      *world.World
	txs                                    tx3.Store
	cfgs                                   cfg3.Store
	rawTxs                                 tx3.Store
	rawCfgs                                cfg3.Store
	tgt                                    v3.Target
	txR                                    *tx3ctl.Reconciler
	cfR                                    *cfg3ctl.Reconciler
	msR                                    *mst3ctl.Reconciler
	writes                                 int
	crashAt                                int
	crashes                                int
	killSites                              []string // where each kill fell: "<write that was not made>@<step> [<transaction status before the step>]"
	curStep                                string
	inStep                                 bool
	history                                []c20Event
	prev                                   map[uint64][4]string
	trace                                  []string
	conn                                   string
	changes                                map[uint64]map[string]string // values of each change ("" = delete)
	failed                                 bool
	maxCommittedOrdinal, maxAppliedOrdinal uint64
}

func (h *c20Harness) beforeWrite(kind string) {
	h.writes++
	if h.inStep && h.crashAt > 0 && h.writes == h.crashAt {
		h.crashAt = 0
		h.crashes++
		h.trace = append(h.trace, fmt.Sprintf("   !! process killed just before %s (write %d)", kind, h.writes))
		site := kind + "@" + h.curStep
		known := false
		for _, k := range h.killSites {
			if k == site {
				known = true
			}
		}
		if !known {
			h.killSites = append(h.killSites, site)
		}
		panic(c20Crash{})
	}
}

// killKey attributes a termination failure in a history with kills. Two gaps are a known finding (KF-C20-4): the kill
// between the configuration write and the transaction status write of the step that starts, or of the step that
// completes, the apply of a committed change. Any other history is keyed by the places where its kills fell.
func (h *c20Harness) killKey() string {
	known := map[string]bool{
		"tx.UpdateStatus@reconcile transaction[change c=Complete a=Pending rc=Nil ra=Nil]":    true, // the step that starts the apply
		"tx.UpdateStatus@reconcile transaction[change c=Complete a=InProgress rc=Nil ra=Nil]": true, // the step that completes it
	}
	for _, k := range h.killSites {
		if known[k] {
			return "termination/after-kill-between-writes/tx-status-write-of-an-apply-step"
		}
	}
	sites := append([]string(nil), h.killSites...)
	sort.Strings(sites)
	return "termination/after-kill-between-writes/" + strings.Join(sites, " + ")
}

func st3(p *v3.TransactionPhaseStatus) string {
	if p == nil {
		return "Nil"
	}
	switch p.State {
	case v3.TransactionPhaseStatus_PENDING:
		return "Pending"
	case v3.TransactionPhaseStatus_IN_PROGRESS:
		return "InProgress"
	case v3.TransactionPhaseStatus_COMPLETE:
		return "Complete"
	case v3.TransactionPhaseStatus_ABORTED:
		return "Aborted"
	case v3.TransactionPhaseStatus_CANCELED:
		return "Canceled"
	case v3.TransactionPhaseStatus_FAILED:
		return "Failed"
	}
	return p.State.String()
}

func (h *c20Harness) list() []v3.Transaction {
	l, _ := h.rawTxs.List(context.Background())
	sort.Slice(l, func(i, j int) bool { return l[i].ID.Index < l[j].ID.Index })
	return l
}

func (h *c20Harness) cfg() *v3.Configuration {
	c, _ := h.rawCfgs.Get(context.Background(), v3.ConfigurationID{Target: h.tgt})
	return c
}

// step runs one action under the crash sentinel
func (h *c20Harness) step(name string, f func()) {
	h.trace = append(h.trace, name)
	h.inStep = true
	// abstract description of the step for the attribution of a kill: the kind of step and, for a transaction
	// reconcile, the status of that transaction before the step
	h.curStep = strings.TrimRight(name, "0123456789 ")
	if strings.HasPrefix(name, "reconcile transaction ") {
		var idx uint64
		fmt.Sscanf(name, "reconcile transaction %d", &idx)
		for _, t := range h.list() {
			if uint64(t.ID.Index) == idx {
				ph := "change"
				if t.Status.Phase == v3.TransactionStatus_ROLLBACK {
					ph = "rollback"
				}
				h.curStep = fmt.Sprintf("reconcile transaction[%s c=%s a=%s rc=%s ra=%s]", ph, st3(t.Status.Change.Commit), st3(t.Status.Change.Apply), st3(t.Status.Rollback.Commit), st3(t.Status.Rollback.Apply))
			}
		}
	}
	func() {
		defer func() {
			if r := recover(); r != nil {
				if _, ok := r.(c20Crash); !ok {
					panic(r)
				}
			}
		}()
		f()
	}()
	h.inStep = false
	h.observe()
}

func (h *c20Harness) fail(key, format string, args ...interface{}) {
	if h.failed {
		return
	}
	h.failed = true
	for _, t := range h.trace {
		h.c.Tracef("%s", t)
	}
	for i, e := range h.history {
		h.c.Tracef("history[%d] = %+v", i+1, e)
	}
	h.c.Tracef("final state: %s", h.stateKey(h.list(), h.cfg()))
	if cfg := h.cfg(); cfg != nil {
		h.c.Tracef("configuration: committed=%v applied=%v status=%v", cfg.Committed, cfg.Applied, cfg.Status)
	}
	h.c.Tracef("device: %s", h.w.Devices["t1"].Snapshot())
	h.c.Violate("v3", key, fmt.Sprintf(format, args...), nil)
}

// observe diffs the records against the previous step, extends the history like the spec's 'history'
// variable does, and evaluates Order and Consistency on the new state
func (h *c20Harness) observe() {
	l := h.list()
	cfg := h.cfg()
	for _, t := range l {
		i := uint64(t.ID.Index)
		cur := [4]string{st3(t.Status.Change.Commit), st3(t.Status.Change.Apply), st3(t.Status.Rollback.Commit), st3(t.Status.Rollback.Apply)}
		old, seen := h.prev[i]
		if !seen {
			old = [4]string{"Pending", "Pending", "Nil", "Nil"}
		}
		names := [4][2]string{{"Change", "Commit"}, {"Change", "Apply"}, {"Rollback", "Commit"}, {"Rollback", "Apply"}}
		for k := 0; k < 4; k++ {
			if cur[k] != old[k] && cur[k] != "Pending" && cur[k] != "Nil" {
				h.history = append(h.history, c20Event{names[k][0], names[k][1], i, cur[k]})
				h.trace = append(h.trace, fmt.Sprintf("      history += %s %s %d %s", names[k][0], names[k][1], i, cur[k]))
				h.c.Count("history_events", 1)
			}
		}
		h.prev[i] = cur
	}
	h.c.Count("states_checked", 1)
	h.c.Distinct("abstract_state", h.stateKey(l, cfg))
	// ---- Order
	hist := h.history
	for i, e := range hist {
		if e.Status != "Complete" {
			continue
		}
		if e.Phase == "Change" {
			for j := 0; j < i; j++ {
				x := hist[j]
				if x.Phase == "Change" && x.Event == e.Event && x.Status == "Complete" && x.Index >= e.Index {
					h.fail("order/change-"+strings.ToLower(e.Event)+"-out-of-order", "Order: change %d %s Complete (history[%d]) after change %d %s Complete (history[%d])", e.Index, e.Event, i+1, x.Index, x.Event, j+1)
					return
				}
			}
		} else {
			found := false
			for j := 0; j < i; j++ {
				x := hist[j]
				if x.Phase == "Change" && x.Status == "Complete" && x.Index == e.Index {
					found = true
				}
			}
			if !found {
				h.fail("order/rollback-without-change", "Order: rollback %d %s Complete (history[%d]) without an earlier completed change stage of %d", e.Index, e.Event, i+1, e.Index)
				return
			}
			for j := 0; j < i; j++ {
				x := hist[j]
				if x.Phase == "Change" && x.Event == e.Event && x.Status == "Complete" && x.Index > e.Index {
					rolled := false
					for k := j + 1; k < i; k++ {
						y := hist[k]
						if y.Phase == "Rollback" && y.Event == e.Event && y.Status == "Complete" && y.Index == x.Index {
							rolled = true
						}
					}
					if !rolled {
						h.fail("order/rollback-"+strings.ToLower(e.Event)+"-not-in-reverse-order", "Order: rollback %d %s Complete (history[%d]) although the later change %d (%s Complete at history[%d]) has not been rolled back", e.Index, e.Event, i+1, x.Index, x.Event, j+1)
						return
					}
				}
			}
		}
		// each phase is committed before it is applied
		if e.Event == "Apply" {
			ok := false
			for j := 0; j < i; j++ {
				x := hist[j]
				if x.Phase == e.Phase && x.Event == "Commit" && x.Status == "Complete" && x.Index == e.Index {
					ok = true
				}
			}
			if !ok {
				h.fail("order/applied-before-committed", "%s %d applied (history[%d]) before it was committed", e.Phase, e.Index, i+1)
				return
			}
		}
	}
	for _, t := range l {
		if st3(t.Status.Change.Apply) == "Failed" && st3(t.Status.Rollback.Apply) != "Complete" {
			for _, u := range l {
				if u.ID.Index > t.ID.Index && (st3(u.Status.Change.Apply) == "InProgress" || st3(u.Status.Change.Apply) == "Complete") {
					// only a violation if u's apply started after t failed: find in history
					tf, ua := -1, -1
					for k, e := range hist {
						if e.Phase == "Change" && e.Event == "Apply" && e.Index == uint64(t.ID.Index) && e.Status == "Failed" {
							tf = k
						}
						if e.Phase == "Change" && e.Event == "Apply" && e.Index == uint64(u.ID.Index) && (e.Status == "InProgress" || e.Status == "Complete") && ua < 0 {
							ua = k
						}
					}
					if tf >= 0 && ua > tf {
						h.fail("order/applied-past-failed-change", "Order: change %d is %s although the apply of change %d failed and has not been rolled back", u.ID.Index, st3(u.Status.Change.Apply), t.ID.Index)
						return
					}
				}
			}
		}
	}
	// ---- Consistency
	if cfg == nil {
		return
	}
	if uint64(cfg.Committed.Ordinal) < h.maxCommittedOrdinal || uint64(cfg.Applied.Ordinal) < h.maxAppliedOrdinal {
		h.fail("order/ordinal-decreased", "the configuration's ordinals went backwards: committed %d (was %d), applied %d (was %d)", cfg.Committed.Ordinal, h.maxCommittedOrdinal, cfg.Applied.Ordinal, h.maxAppliedOrdinal)
		return
	}
	h.maxCommittedOrdinal, h.maxAppliedOrdinal = uint64(cfg.Committed.Ordinal), uint64(cfg.Applied.Ordinal)
	val := func(pv v3.PathValue, ok bool) string {
		if !ok || pv.Deleted {
			return ""
		}
		return pv.Value.ValueToString()
	}
	if rev := uint64(cfg.Committed.Revision); rev > 0 && h.changes[rev] != nil {
		h.c.Count("consistency_committed_checked", 1)
		for p, want := range h.changes[rev] {
			pv, ok := cfg.Committed.Values[p]
			if got := val(pv, ok); got != want {
				h.fail("consistency/committed-values", "Consistency: committed revision is %d but committed value of %s is %q, the change set %q", rev, p, got, want)
				return
			}
		}
	}
	applyComplete := func(rev uint64) bool {
		for _, t := range l {
			if uint64(t.ID.Index) == rev {
				return st3(t.Status.Change.Apply) == "Complete"
			}
		}
		return false
	}
	// (a revision reached by rolling back its successor holds the applied values only if its own apply completed)
	if rev := uint64(cfg.Applied.Revision); rev > 0 && h.changes[rev] != nil && applyComplete(rev) {
		h.c.Count("consistency_applied_checked", 1)
		for p, want := range h.changes[rev] {
			pv, ok := cfg.Applied.Values[p]
			if got := val(pv, ok); got != want {
				h.fail("consistency/applied-values", "Consistency: applied revision is %d but applied value of %s is %q, the change set %q", rev, p, got, want)
				return
			}
			// (an apply that is in progress may already have reached the device - the push and the record of it are two
			// steps: the device is only compared while no apply is under way)
			applying := false
			for _, t := range l {
				if st3(t.Status.Change.Apply) == "InProgress" || st3(t.Status.Rollback.Apply) == "InProgress" {
					applying = true
				}
			}
			if !applying && h.conn != "" && cfg.Status.State == v3.ConfigurationStatus_SYNCHRONIZED && cfg.Status.Mastership != nil && cfg.Applied.Term == cfg.Status.Mastership.Term && string(cfg.Status.Mastership.Master) == h.conn {
				dev := h.w.Devices["t1"].Snapshot()
				got := ""
				if le, ok := dev[p]; ok {
					got = string(le.V)
					if i := strings.Index(got, ":"); i >= 0 {
						got = got[i+1:] // typed notation "s:abc", "i:-5": the device comparison is about the value
					}
				}
				h.c.Count("consistency_device_checked", 1)
				if got != want {
					h.fail("consistency/device-values", "Consistency: applied revision is %d, the configuration is synchronized in the current term, but the device holds %s=%q, the change set %q", rev, p, got, want)
					return
				}
			}
		}
	}
}

func (h *c20Harness) stateKey(l []v3.Transaction, cfg *v3.Configuration) string {
	var b strings.Builder
	for _, t := range l {
		fmt.Fprintf(&b, "%d:%d/%s/%s/%s/%s;", t.ID.Index, t.Status.Phase, st3(t.Status.Change.Commit), st3(t.Status.Change.Apply), st3(t.Status.Rollback.Commit), st3(t.Status.Rollback.Apply))
	}
	if cfg != nil {
		fmt.Fprintf(&b, "C%d/%d/%d/%d/%d|A%d/%d/%d/%d|%s", cfg.Committed.Index, cfg.Committed.Ordinal, cfg.Committed.Revision, cfg.Committed.Target, cfg.Committed.Change,
			cfg.Applied.Index, cfg.Applied.Ordinal, cfg.Applied.Revision, cfg.Applied.Target, cfg.Status.State)
	}
	return b.String()
}

func (h *c20Harness) connect() {
	h.conn = h.w.Connect("t1")
	_ = h.w.Topo.Create(context.Background(), &topoapi.Object{ID: topoapi.ID(h.conn), Type: topoapi.Object_RELATION,
		Obj: &topoapi.Object_Relation{Relation: &topoapi.Relation{KindID: topoapi.CONTROLS, SrcEntityID: ctlutils.GetOnosConfigID(), TgtEntityID: "t1"}}})
}

func (h *c20Harness) disconnect() {
	if h.conn == "" {
		return
	}
	h.w.Disconnect("t1")
	_ = h.w.Topo.Delete(context.Background(), &topoapi.Object{ID: topoapi.ID(h.conn)})
	h.conn = ""
}

func (h *c20Harness) reconcileAll() {
	for _, t := range h.list() {
		id := t.ID
		h.step(fmt.Sprintf("reconcile transaction %d", id.Index), func() { _, _ = h.txR.Reconcile(controller.NewID(id)) })
	}
	h.step("reconcile mastership", func() { _, _ = h.msR.Reconcile(controller.NewID(v3.ConfigurationID{Target: h.tgt})) })
	h.step("reconcile configuration", func() { _, _ = h.cfR.Reconcile(controller.NewID(v3.ConfigurationID{Target: h.tgt})) })
}

func c20Run(c *fw.Case) {
	w, err := world.New(world.Options{Targets: []string{"t1"}, NoControllers: true})
	if err != nil {
		c.Inconclusive("world: " + err.Error())
		return
	}
	defer w.Close()
	h := &c20Harness{c: c, w: w, tgt: v3.Target{ID: "t1", Type: v3.TargetType(w.Schema.Name), Version: v3.TargetVersion(w.Schema.Version)}, prev: map[uint64][4]string{}, changes: map[uint64]map[string]string{}}
	if h.rawTxs, err = tx3.NewAtomixStore(w.Atomix); err != nil {
		c.Inconclusive(err.Error())
		return
	}
	if h.rawCfgs, err = cfg3.NewAtomixStore(w.Atomix); err != nil {
		c.Inconclusive(err.Error())
		return
	}
	h.txs = &c20TxStore{h.rawTxs, h}
	h.cfgs = &c20CfgStore{h.rawCfgs, h}
	ctx := context.Background()
	// nothing in the repository creates v3 configurations (no northbound yet): the harness does, as the spec's Init does
	if err := h.rawCfgs.Create(ctx, &v3.Configuration{ID: v3.ConfigurationID{Target: h.tgt}, Status: v3.ConfigurationStatus{Mastership: &v3.MastershipStatus{}}}); err != nil {
		c.Inconclusive("create configuration: " + err.Error())
		return
	}
	h.txR = tx3ctl.NewReconcilerForVerif(v3.NodeID(ctlutils.GetOnosConfigID()), h.txs, h.cfgs, w.Cur().Conns, w.Topo, w.Registry)
	h.cfR = cfg3ctl.NewReconcilerForVerif(w.Topo, w.Cur().Conns, h.cfgs)
	h.msR = mst3ctl.NewReconcilerForVerif(w.Topo, h.cfgs)
	r := c.Rng.Fork("c20")
	if r.Chance(3, 4) {
		h.connect()
	}
	paths := []string{"/foo", "/bar"}
	nChanges, nRollbacks := 0, 0
	maxChanges := 2 + r.Intn(4)
	steps := 40 + r.Intn(60)
	crashy := r.Chance(1, 2)
	singleKill := r.Chance(1, 2) // one kill only: a termination failure is then attributed to exactly one place
	for s := 0; s < steps && !h.failed; s++ {
		if crashy && h.crashAt == 0 && (!singleKill || h.crashes == 0) && r.Chance(1, 8) {
			h.crashAt = h.writes + 1 + r.Intn(4)
		}
		l := h.list()
		switch x := r.Intn(20); {
		case x < 3 && nChanges < maxChanges:
			vals := map[string]string{}
			m := map[string]v3.PathValue{}
			for k := 1 + r.Intn(2); k > 0; k-- {
				p := paths[r.Intn(len(paths))]
				switch y := r.Intn(10); {
				case y < 2:
					vals[p] = ""
					m[p] = v3.PathValue{Path: p, Deleted: true}
				case y == 2:
					vals[p] = "POISON"
					m[p] = v3.PathValue{Path: p, Value: *v3.NewTypedValueString("POISON")}
				case y == 3:
					vals[p] = "DEVREJECT"
					m[p] = v3.PathValue{Path: p, Value: *v3.NewTypedValueString("DEVREJECT")}
				case y == 4 || y == 5:
					// same magnitude, other sign: the two encodings differ only in the type options
					n := 5
					if r.Chance(1, 2) {
						n = -n
					}
					vals[p] = fmt.Sprint(n)
					m[p] = v3.PathValue{Path: p, Value: *v3.NewTypedValueInt(n, 32)}
				default:
					v := fmt.Sprintf("v%d", 1+r.Intn(2))
					vals[p] = v
					m[p] = v3.PathValue{Path: p, Value: *v3.NewTypedValueString(v)}
				}
			}
			nChanges++
			h.step(fmt.Sprintf("AppendChange %v", vals), func() {
				tr := &v3.Transaction{ID: v3.TransactionID{Target: h.tgt}, Values: m, Status: v3.TransactionStatus{Phase: v3.TransactionStatus_CHANGE,
					Change: v3.TransactionChangeStatus{Commit: &v3.TransactionPhaseStatus{}, Apply: &v3.TransactionPhaseStatus{}}}}
				if err := h.rawTxs.Create(ctx, tr); err == nil {
					h.changes[uint64(tr.ID.Index)] = vals
					c.Count("changes_appended", 1)
				}
			})
		case x < 5 && nRollbacks < 3 && len(l) > 0:
			t := l[r.Intn(len(l))]
			if t.Status.Phase == v3.TransactionStatus_CHANGE && st3(t.Status.Change.Commit) == "Complete" {
				nRollbacks++
				h.step(fmt.Sprintf("RollbackChange %d", t.ID.Index), func() {
					t.Status.Phase = v3.TransactionStatus_ROLLBACK
					t.Status.Rollback.Commit = &v3.TransactionPhaseStatus{}
					t.Status.Rollback.Apply = &v3.TransactionPhaseStatus{}
					if err := h.rawTxs.UpdateStatus(ctx, &t); err == nil {
						c.Count("rollbacks_requested", 1)
					}
				})
			}
		case x < 13 && len(l) > 0:
			id := l[r.Intn(len(l))].ID
			h.step(fmt.Sprintf("reconcile transaction %d", id.Index), func() { _, _ = h.txR.Reconcile(controller.NewID(id)) })
		case x < 15:
			h.step("reconcile mastership", func() { _, _ = h.msR.Reconcile(controller.NewID(v3.ConfigurationID{Target: h.tgt})) })
		case x < 17:
			h.step("reconcile configuration", func() { _, _ = h.cfR.Reconcile(controller.NewID(v3.ConfigurationID{Target: h.tgt})) })
		case x == 17:
			if h.conn != "" {
				h.step("disconnect", h.disconnect)
			} else {
				h.step("connect", h.connect)
			}
		case x == 18 && r.Chance(1, 2):
			h.step("target restarts empty (connection replaced)", func() {
				h.disconnect()
				w.Devices["t1"].RestartEmpty()
				h.connect()
			})
		}
	}
	// termination: with the target connected, re-reconciling until nothing changes must leave every transaction done
	if !h.failed {
		h.crashAt = 0
		if h.conn == "" {
			h.step("connect", h.connect)
		}
		fix := func() {
			for round := 0; round < 80 && !h.failed; round++ {
				before := h.stateKey(h.list(), h.cfg())
				h.reconcileAll()
				if h.stateKey(h.list(), h.cfg()) == before {
					break
				}
			}
		}
		fix()
		// The spec's fairness (WF on RollbackChange) lets a pending rollback wait for the later changes to be
		// rolled back first, which only the user can request: request them, newest first, as long as some
		// rollback is pending.
		for guard := 0; guard < 8 && !h.failed; guard++ {
			l := h.list()
			pending := false
			for _, t := range l {
				if t.Status.Phase == v3.TransactionStatus_ROLLBACK && st3(t.Status.Rollback.Commit) == "Pending" {
					pending = true
				}
			}
			if !pending {
				break
			}
			requested := false
			for k := len(l) - 1; k >= 0; k-- {
				t := l[k]
				if t.Status.Phase == v3.TransactionStatus_CHANGE && st3(t.Status.Change.Commit) == "Complete" {
					h.step(fmt.Sprintf("RollbackChange %d (fairness)", t.ID.Index), func() {
						t.Status.Phase = v3.TransactionStatus_ROLLBACK
						t.Status.Rollback.Commit = &v3.TransactionPhaseStatus{}
						t.Status.Rollback.Apply = &v3.TransactionPhaseStatus{}
						_ = h.rawTxs.UpdateStatus(ctx, &t)
					})
					requested = true
					break
				}
			}
			if !requested {
				break
			}
			fix()
		}
		done := map[string]bool{"Complete": true, "Aborted": true, "Canceled": true, "Failed": true}
		for _, t := range h.list() {
			cc, ca, rc, ra := st3(t.Status.Change.Commit), st3(t.Status.Change.Apply), st3(t.Status.Rollback.Commit), st3(t.Status.Rollback.Apply)
			c.Count("transactions_checked_for_termination", 1)
			if t.Status.Phase == v3.TransactionStatus_CHANGE && !(done[cc] && done[ca]) {
				key := "termination/change"
				if h.crashes > 0 {
					key = h.killKey()
				}
				for _, e := range h.history {
					if e.Phase == "Rollback" && e.Event == "Commit" && e.Status == "Complete" && e.Index != uint64(t.ID.Index) && cc == "Pending" {
						key = "termination/change-pending-after-rollback-commit"
					}
				}
				if cc == "Complete" && h.crashes == 0 {
					key = "termination/change-committed-but-never-applied"
				}
				h.fail(key, "Terminates: at the fixed point with the target connected change %d is commit=%s apply=%s", t.ID.Index, cc, ca)
			}
			if t.Status.Phase == v3.TransactionStatus_ROLLBACK && !(done[rc] && done[ra]) {
				key := "termination/rollback"
				if h.crashes > 0 {
					key = h.killKey()
				}
				for _, e := range h.history {
					if e.Phase == "Change" && e.Event == "Commit" && e.Status == "Failed" && e.Index > uint64(t.ID.Index) {
						key = "termination/rollback-blocked-by-later-failed-change"
					}
				}
				for _, e := range h.history {
					if e.Phase == "Rollback" && e.Event == "Commit" && e.Status == "Complete" && e.Index != uint64(t.ID.Index) {
						key = "termination/rollback-pending-after-rollback-commit"
					}
				}
				h.fail(key, "Terminates: at the fixed point with the target connected rollback of %d is commit=%s apply=%s (change commit=%s apply=%s)", t.ID.Index, rc, ra, cc, ca)
			}
		}
	}
	c.Count("crashes_injected", int64(h.crashes))
	c.Count("executions", 1)
	c.Class(fmt.Sprintf("changes=%d rollbacks=%d crashes=%v", nChanges, nRollbacks, h.crashes > 0))
	if len(h.history) == 0 {
		c.Trivial()
	}
	if c.Index%25 == 0 {
		tr := h.trace
		if len(tr) > 60 {
			tr = tr[:60]
		}
		c.Sample(map[string]interface{}{"steps": tr, "history": fmt.Sprint(h.history)})
	}
	_ = refmodel.S
}

func init() {
	fw.Register(&fw.Check{ID: "C20", Level: "exploration",
		Technique: "runtime monitoring: the real v3 transaction / configuration / mastership reconcilers on the real v3 stores are stepped by a PRNG scheduler (one reconcile, append, rollback request, connection event or target restart per step, process kills just before chosen store writes); after every step the records are diffed into a history like the spec's, and Go transcriptions of Order, Consistency and (at the final fixed point) termination from spec/Config.tla are evaluated",
		Rule:      "each case = 40..100 scheduler steps over up to 5 changes and 3 rollback requests on one target, paths {/foo,/bar}, values {v1,v2,delete, model-rejected, device-rejected, integers 5 / -5 (equal bytes, different type options)}; half of the cases inject kills between store writes, half of those exactly one (its site keys a termination failure); distinct_nontrivial = distinct abstract states (all status fields + configuration indexes) visited",
		Assumptions: []string{"reconcile steps are atomic except for injected kills before store writes", "the v3 northbound does not exist: the harness plays AppendChange / RollbackChange as spec/Transaction.tla defines them and creates the Configuration record with its mastership status allocated",
			"history events are derived from the transaction records' status fields (the observable behaviour), not from the configuration writes the spec annotates"},
		DistinctSet: "abstract_state", CaseTimeout: 300e9,
		Floors: map[string]int64{"history_events": 1500, "states_checked": 10000, "consistency_committed_checked": 3000, "crashes_injected": 100, "rollbacks_requested": 100},
		Cases: func(tier string) int {
			if tier == "thorough" {
				return 12000
			}
			return 300
		},
		Run: c20Run})
}
