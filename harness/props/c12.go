package props

import (
	"context"
	"encoding/hex"
	"fmt"
	"io"
	"os"
	"path/filepath"
	"runtime/debug"
	"sync"
	"time"

	adminapi "github.com/onosproject/onos-api/go/onos/config/admin"
	configapi "github.com/onosproject/onos-api/go/onos/config/v2"
	"github.com/openconfig/gnmi/proto/gnmi"
	"google.golang.org/grpc/metadata"
	"google.golang.org/protobuf/proto"

	"verif/engine"
	"verif/fw"
	"verif/refmodel"
	"verif/world"
)

// fakeStream is a server stream for Subscribe and the admin streaming calls
type fakeStream struct {
	ctx  context.Context
	mu   sync.Mutex
	in   []*gnmi.SubscribeRequest
	sent []interface{}
	wait bool // Recv blocks until the context is done once the queue is empty (instead of EOF)
	// beforeRecv, when set, is called with the number of messages already handed out, before the next one is
	recvd      int
	beforeRecv func(n int)
}

func (s *fakeStream) Context() context.Context     { return s.ctx }
func (s *fakeStream) SetHeader(metadata.MD) error  { return nil }
func (s *fakeStream) SendHeader(metadata.MD) error { return nil }
func (s *fakeStream) SetTrailer(metadata.MD)       {}
func (s *fakeStream) SendMsg(m interface{}) error  { return nil }
func (s *fakeStream) RecvMsg(m interface{}) error  { return nil }
func (s *fakeStream) record(m interface{}) error {
	s.mu.Lock()
	s.sent = append(s.sent, m)
	s.mu.Unlock()
	return nil
}
func (s *fakeStream) Recv() (*gnmi.SubscribeRequest, error) {
	if s.beforeRecv != nil {
		s.beforeRecv(s.recvd)
	}
	s.recvd++
	s.mu.Lock()
	if len(s.in) > 0 {
		m := s.in[0]
		s.in = s.in[1:]
		s.mu.Unlock()
		return m, nil
	}
	s.mu.Unlock()
	if s.wait {
		<-s.ctx.Done()
	}
	return nil, io.EOF
}

type subStream struct{ *fakeStream }

func (s subStream) Send(m *gnmi.SubscribeResponse) error { return s.record(m) }

type listTxStream struct{ *fakeStream }

func (s listTxStream) Send(m *adminapi.ListTransactionsResponse) error { return s.record(m) }

type watchTxStream struct{ *fakeStream }

func (s watchTxStream) Send(m *adminapi.WatchTransactionsResponse) error { return s.record(m) }

type listCfgStream struct{ *fakeStream }

func (s listCfgStream) Send(m *adminapi.ListConfigurationsResponse) error { return s.record(m) }

type watchCfgStream struct{ *fakeStream }

func (s watchCfgStream) Send(m *adminapi.WatchConfigurationsResponse) error { return s.record(m) }

type modelsStream struct{ *fakeStream }

func (s modelsStream) Send(m *adminapi.ModelPlugin) error { return s.record(m) }

// guarded runs one handler call under recover() and reports a panic as a violation keyed by its site
func guarded(c *fw.Case, what string, wire []byte, f func()) {
	done := make(chan struct{})
	go func() {
		defer close(done)
		defer func() {
			if r := recover(); r != nil {
				st := string(debug.Stack())
				site := fw.HarnessPanicKey(st)
				if site == "" {
					site = "outside-onos-config"
				}
				c.Violate("panic", "panic@"+site, fmt.Sprintf("%s panicked: %v\nrequest (wire, hex): %s", what, r, hex.EncodeToString(wire)), st)
			}
		}()
		f()
	}()
	select {
	case <-done:
	case <-time.After(20 * time.Second):
		c.Count("handler_calls_still_running_after_20s", 1)
		c.Tracef("still running after 20 s: %s %s", what, hex.EncodeToString(wire))
		c.Distinct("slow_handler", what)
	}
}

func c12Run(c *fw.Case, n int, inflight string) {
	populated := c.Index%2 == 0
	w, err := world.New(world.Options{Targets: []string{"t1", "t2"}, ExtraTargets: map[string][2]string{"noplugin": {"nosuchmodel", "9.9.9"}}})
	if err != nil {
		c.Inconclusive("world: " + err.Error())
		return
	}
	defer w.Close()
	w.Connect("t1")
	inc := w.Cur()
	if populated {
		ctx, cancel := context.WithTimeout(context.Background(), 20*time.Second)
		for _, ops := range [][2]string{{"/foo", "v"}, {"/a/b", "w"}, {"/c/l[k=x]/v", "x"}} {
			_, _ = inc.Server.Set(ctx, engineSet("t1", ops[0], ops[1]))
		}
		cancel()
	}
	r := c.Rng.Fork("hostile")
	var lastReqs []string
	md := func(ctx context.Context) context.Context {
		switch r.Intn(4) {
		case 0:
			return metadata.NewIncomingContext(ctx, metadata.Pairs("name", "alice", "groups", "AetherROCAdmin;t1", "preferred_username", "alice"))
		case 1:
			return metadata.NewIncomingContext(ctx, metadata.Pairs("name", "bob"))
		}
		return ctx
	}
	for i := 0; i < n; i++ {
		var mut *fw.Rng
		if r.Chance(1, 3) {
			mut = r
		}
		kind := r.Intn(20)
		var m proto.Message
		switch {
		case kind < 8:
			m = hSetRequest(r)
		case kind < 13:
			m = hGetRequest(r)
		case kind < 16:
			m = hSubscribeRequest(r)
		case kind == 16:
			m = &gnmi.CapabilityRequest{Extension: hExtensions(r)}
		default:
			m = nil
		}
		ctx, cancel := context.WithTimeout(md(context.Background()), 2*time.Second)
		if m != nil {
			rt, wire := wireRoundTrip(m, mut)
			if rt == nil {
				cancel()
				c.Count("requests_not_wire_decodable", 1)
				continue
			}
			_ = os.WriteFile(inflight, []byte(fmt.Sprintf("%T %s\n", rt, hex.EncodeToString(wire))), 0o644)
			c.Count("requests", 1)
			if mut != nil {
				c.Count("requests_wire_mutated", 1)
			}
			if len(lastReqs) < 6 {
				txt := fmt.Sprintf("%T %v", rt, rt)
				if len(txt) > 400 {
					txt = txt[:400]
				}
				lastReqs = append(lastReqs, txt)
			}
			switch req := rt.(type) {
			case *gnmi.SetRequest:
				c.Count("set_requests", 1)
				guarded(c, "Set", wire, func() {
					_, err := inc.Server.Set(ctx, req)
					if err == nil {
						c.Count("set_requests_accepted", 1)
					}
					c.Distinct("answer", "Set:"+engineErr(err))
				})
			case *gnmi.GetRequest:
				c.Count("get_requests", 1)
				guarded(c, "Get", wire, func() {
					_, err := inc.Server.Get(ctx, req)
					c.Distinct("answer", "Get:"+engineErr(err))
				})
			case *gnmi.SubscribeRequest:
				c.Count("subscribe_streams", 1)
				st := &fakeStream{ctx: ctx, in: []*gnmi.SubscribeRequest{req}}
				for k := r.Intn(3); k > 0; k-- {
					if x, _ := wireRoundTrip(hSubscribeRequest(r), nil); x != nil {
						st.in = append(st.in, x.(*gnmi.SubscribeRequest))
					}
				}
				guarded(c, "Subscribe", wire, func() {
					err := inc.Server.Subscribe(subStream{st})
					c.Distinct("answer", "Subscribe:"+engineErr(err))
				})
			case *gnmi.CapabilityRequest:
				guarded(c, "Capabilities", wire, func() { _, _ = inc.Server.Capabilities(ctx, req) })
			}
			cancel()
			continue
		}
		// admin requests (gogo types: marshalled with their own methods)
		c.Count("requests", 1)
		c.Count("admin_requests", 1)
		switch r.Intn(9) {
		case 0:
			req := &adminapi.RollbackRequest{Index: configapi.Index(r.Intn(6))}
			if r.Chance(1, 5) {
				req.Index = configapi.Index(r.U64())
			}
			b := []byte(fmt.Sprintf("index=%d", req.Index))
			_ = os.WriteFile(inflight, []byte("RollbackRequest "+string(b)), 0o644)
			guarded(c, "RollbackTransaction", b, func() {
				_, err := inc.Admin.RollbackTransaction(ctx, req)
				c.Distinct("answer", "Rollback:"+engineErr(err))
			})
		case 1, 2:
			req := hLeafSelection(r)
			if req.ChangeContext != nil {
				if rt, _ := wireRoundTrip(req.ChangeContext, mut); rt != nil {
					req.ChangeContext = rt.(*gnmi.SetRequest)
				} else {
					req.ChangeContext = nil
				}
			}
			_ = os.WriteFile(inflight, []byte(fmt.Sprintf("LeafSelectionQuery %+v", req)), 0o644)
			guarded(c, "LeafSelectionQuery", nil, func() {
				_, err := inc.Admin.LeafSelectionQuery(ctx, req)
				c.Distinct("answer", "LeafSelection:"+engineErr(err))
			})
			if r.Chance(1, 10) {
				guarded(c, "LeafSelectionQuery(nil)", nil, func() { _, _ = inc.Admin.LeafSelectionQuery(ctx, nil) })
			}
		case 3:
			req := &adminapi.GetTransactionRequest{ID: configapi.TransactionID(hName(r)), Index: configapi.Index(r.Intn(5))}
			guarded(c, "GetTransaction", nil, func() { _, _ = inc.Admin.GetTransaction(ctx, req) })
		case 4:
			ids := []string{"t1-synth-1.0.0", "t2-synth-1.0.0", "", "nosuch", hName(r)}
			req := &adminapi.GetConfigurationRequest{ConfigurationID: configapi.ConfigurationID(ids[r.Intn(len(ids))])}
			guarded(c, "GetConfiguration", nil, func() { _, _ = inc.Admin.GetConfiguration(ctx, req) })
		case 5:
			guarded(c, "ListTransactions", nil, func() {
				_ = inc.Admin.ListTransactions(&adminapi.ListTransactionsRequest{}, listTxStream{&fakeStream{ctx: ctx}})
			})
			guarded(c, "ListConfigurations", nil, func() {
				_ = inc.Admin.ListConfigurations(&adminapi.ListConfigurationsRequest{}, listCfgStream{&fakeStream{ctx: ctx}})
			})
		case 6:
			wctx, wcancel := context.WithCancel(ctx)
			req := &adminapi.WatchTransactionsRequest{Noreplay: r.Chance(1, 2), ID: configapi.TransactionID(hostileNames[r.Intn(len(hostileNames))])}
			if r.Chance(1, 2) {
				req.ID = ""
			}
			go func() { time.Sleep(time.Duration(1+r.Intn(5)) * time.Millisecond); wcancel() }()
			guarded(c, "WatchTransactions", nil, func() { _ = inc.Admin.WatchTransactions(req, watchTxStream{&fakeStream{ctx: wctx}}) })
			wcancel()
		case 7:
			wctx, wcancel := context.WithCancel(ctx)
			req := &adminapi.WatchConfigurationsRequest{Noreplay: r.Chance(1, 2)}
			if r.Chance(1, 2) {
				req.ConfigurationID = "t1-synth-1.0.0"
			}
			go func() { time.Sleep(time.Duration(1+r.Intn(5)) * time.Millisecond); wcancel() }()
			guarded(c, "WatchConfigurations", nil, func() { _ = inc.Admin.WatchConfigurations(req, watchCfgStream{&fakeStream{ctx: wctx}}) })
			wcancel()
		case 8:
			guarded(c, "ListRegisteredModels", nil, func() {
				_ = inc.Admin.ListRegisteredModels(&adminapi.ListModelsRequest{Verbose: true, ModelName: hName(r)}, modelsStream{&fakeStream{ctx: ctx}})
			})
		}
		cancel()
	}
	_ = os.Remove(inflight)
	c.Class(fmt.Sprintf("populated=%v", populated))
	c.Count("batches", 1)
	if c.Index%30 == 0 {
		c.Sample(map[string]interface{}{"populated": populated, "last_requests": lastReqs})
	}
	// the controllers must have survived the transactions hostile requests created: give them a moment and touch the world
	time.Sleep(50 * time.Millisecond)
	if _, err := inc.RawTxs.List(context.Background()); err != nil {
		c.Inconclusive("store unusable after batch: " + err.Error())
	}
}

func engineSet(target, path, val string) *gnmi.SetRequest {
	return &gnmi.SetRequest{Update: []*gnmi.Update{{Path: mustPath(target, path), Val: &gnmi.TypedValue{Value: &gnmi.TypedValue_StringVal{StringVal: val}}}}}
}

func init() {
	fw.Register(&fw.Check{ID: "C12", Level: "exploration",
		Technique: "runtime monitoring: PRNG structured generation + wire-level mutation of gNMI / admin requests, every request round-tripped through its wire encoding, handlers called under recover() with the real controllers running; a panic anywhere in the process is a violation keyed by its top onos-config frame; plus a coverage-guided stage: Go native fuzzing (go test -fuzz, coverage of the whole process) over the same handlers with the structured generator's requests as seed corpus, a fixed number of executions",
		Rule: "each case is a batch of 60 requests (Set 40%, Get 25%, Subscribe streams 15%, Capabilities, admin calls 15%) against an empty or a populated world; a third of the requests are additionally bit-flipped / truncated / spliced at wire level and kept when they still decode; " +
			"distinct_nontrivial = distinct (handler, gRPC answer class) pairs observed; the last case is the coverage-guided stage (quick 25000 executions, thorough 200000)",
		Assumptions: []string{"requests reach the handlers as Go messages decoded from wire bytes (no gRPC transport)", "the in-flight request of a batch is written to work/C12/inflight-<case>.txt before each call, so a fatal runtime error still leaves the input"},
		DistinctSet: "answer", CaseTimeout: 600e9,
		Floors: map[string]int64{"requests": 5000, "set_requests_accepted": 50, "requests_wire_mutated": 500, "fuzz_executions": 20000},
		Cases: func(tier string) int {
			if tier == "thorough" {
				return 5000 + 1
			}
			return 120 + 1
		},
		Run: func(c *fw.Case) {
			// the last case is the coverage-guided stage (Go native fuzzing over the same handlers)
			if c.Tier == "thorough" && c.Index == 5000 {
				c12Fuzz(c, 200000)
				return
			}
			if c.Tier != "thorough" && c.Index == 120 {
				c12Fuzz(c, 25000)
				return
			}
			dir := os.Getenv("VERIF_WORK")
			if dir == "" {
				dir = os.TempDir()
			}
			c12Run(c, 60, filepath.Join(dir, fmt.Sprintf("inflight-%d.txt", c.Index)))
		}})
}

func mustPath(target, path string) *gnmi.Path {
	return refmodel.MustParse(path).ToGNMI(target)
}

func engineErr(err error) string { return engine.ErrClass(err) }
