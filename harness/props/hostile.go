package props

import (
	"math"

	adminapi "github.com/onosproject/onos-api/go/onos/config/admin"
	configapi "github.com/onosproject/onos-api/go/onos/config/v2"
	"github.com/openconfig/gnmi/proto/gnmi"
	"github.com/openconfig/gnmi/proto/gnmi_ext"
	"google.golang.org/protobuf/proto"
	"google.golang.org/protobuf/types/known/anypb"

	"verif/fw"
	"verif/refmodel"
)

// hostile request generation: structured, with omission and garbage at every optional position.
// Everything generated is marshalled and unmarshalled again before use, so only wire-decodable
// requests reach the handlers.

var hostileNames = []string{"foo", "bar", "fo", "a", "b", "bc", "c", "l", "m", "k", "k1", "k2", "v", "n", "in", "id", "w", "sub", "x", "t", "i8", "u64", "flt", "dec", "bytes", "ll-str", "ll-i64",
	"state", "counter", "cont", "leaf2", "cont-x", "", " ", "*", "...", "a]", "[", "]", "a[b", "l[k=x]", "l[a]", "=", "a=b", "/", "a/b", "\\", "(", ")", "(?", "+", "?", ".", "{", "}", "$", "^", "|",
	"mod:foo", "\x00", "é", "very-long-name-very-long-name-very-long-name-very-long-name-very-long-name-very-long-name"}
var hostileKeyVals = []string{"x", "xy", "1", "10", "2", "3", "*", "", " ", "]", "[", "=", "/", "a/b", "\\", "(", "x]y", "x[y", "eth1/1", "a b", "..."}
var hostileTargets = []string{"", "t1", "t2", "t1", "*", "unknown", "noplugin", "t1/x", " ", "T1"}

func hName(r *fw.Rng) string {
	if r.Chance(7, 10) {
		return hostileNames[r.Intn(30)] // mostly plausible names so that requests get past the first check
	}
	return hostileNames[r.Intn(len(hostileNames))]
}

func hPath(r *fw.Rng) *gnmi.Path {
	if r.Chance(1, 12) {
		return nil
	}
	p := &gnmi.Path{}
	if r.Chance(3, 4) {
		p.Target = hostileTargets[r.Intn(len(hostileTargets))]
	}
	if r.Chance(1, 15) {
		p.Origin = hName(r)
	}
	if r.Chance(1, 15) {
		for i := r.Intn(4); i > 0; i-- {
			p.Element = append(p.Element, hName(r)) //nolint
		}
		return p
	}
	known := [][]string{{"foo"}, {"a", "b"}, {"c", "l", "v"}, {"c", "m", "v"}, {"c", "l", "k"}, {"t", "u64"}, {"t", "flt"}, {"t", "ll-str"}, {"state", "counter"}, {"c", "l", "in", "w"}, {"c"}, {"a"}}
	if r.Chance(1, 2) {
		for _, n := range known[r.Intn(len(known))] {
			e := &gnmi.PathElem{Name: n}
			switch n {
			case "l":
				e.Key = map[string]string{"k": hostileKeyVals[r.Intn(6)]}
			case "m":
				e.Key = map[string]string{"k1": hostileKeyVals[r.Intn(6)], "k2": hostileKeyVals[r.Intn(6)]}
			case "in":
				e.Key = map[string]string{"id": "1"}
			}
			if r.Chance(1, 10) {
				e.Key = map[string]string{hName(r): hostileKeyVals[r.Intn(len(hostileKeyVals))]}
			}
			if r.Chance(1, 12) {
				e.Name = hName(r)
			}
			p.Elem = append(p.Elem, e)
		}
		return p
	}
	for i := r.Intn(5); i > 0; i-- {
		e := &gnmi.PathElem{Name: hName(r)}
		for k := r.Intn(3); k > 0 && r.Chance(1, 3); k-- {
			if e.Key == nil {
				e.Key = map[string]string{}
			}
			e.Key[hName(r)] = hostileKeyVals[r.Intn(len(hostileKeyVals))]
		}
		p.Elem = append(p.Elem, e)
	}
	return p
}

func hScalar(r *fw.Rng) *gnmi.TypedValue {
	ints := []int64{0, 1, -1, math.MaxInt64, math.MinInt64, 1 << 31, 1 << 32, -(1 << 31), 255, 256}
	uints := []uint64{0, 1, math.MaxUint64, 1 << 32, 1 << 63, 255, 256, 65536}
	floats := []float32{0, 1.5, float32(math.NaN()), float32(math.Inf(1)), float32(math.Inf(-1)), math.MaxFloat32, -math.MaxFloat32, math.SmallestNonzeroFloat32}
	switch r.Intn(12) {
	case 0:
		return &gnmi.TypedValue{Value: &gnmi.TypedValue_StringVal{StringVal: hName(r)}}
	case 1:
		return &gnmi.TypedValue{Value: &gnmi.TypedValue_IntVal{IntVal: ints[r.Intn(len(ints))]}}
	case 2:
		return &gnmi.TypedValue{Value: &gnmi.TypedValue_UintVal{UintVal: uints[r.Intn(len(uints))]}}
	case 3:
		return &gnmi.TypedValue{Value: &gnmi.TypedValue_BoolVal{BoolVal: r.Chance(1, 2)}}
	case 4:
		b := []byte(hName(r))
		if r.Chance(1, 3) {
			b = nil
		}
		return &gnmi.TypedValue{Value: &gnmi.TypedValue_BytesVal{BytesVal: b}}
	case 5:
		return &gnmi.TypedValue{Value: &gnmi.TypedValue_FloatVal{FloatVal: floats[r.Intn(len(floats))]}} //nolint
	case 6:
		if r.Chance(1, 4) {
			return &gnmi.TypedValue{Value: &gnmi.TypedValue_DecimalVal{DecimalVal: nil}} //nolint
		}
		return &gnmi.TypedValue{Value: &gnmi.TypedValue_DecimalVal{DecimalVal: &gnmi.Decimal64{Digits: ints[r.Intn(len(ints))], Precision: uint32(r.Intn(40))}}} //nolint
	case 7:
		return &gnmi.TypedValue{Value: &gnmi.TypedValue_AsciiVal{AsciiVal: hName(r)}}
	case 8:
		js := []string{`{"foo":"x"}`, `{"a":{"b":"1"}}`, `{`, ``, `null`, `[]`, `{"c":{"l":[{"k":"x","v":"1"}]}}`, `{"c":{"l":[{"v":"1"}]}}`, `{"nosuch":1}`, `"str"`, `{"t":{"u64":"18446744073709551615"}}`, `{"c":{"l":{}}}`}
		if r.Chance(1, 2) {
			return &gnmi.TypedValue{Value: &gnmi.TypedValue_JsonVal{JsonVal: []byte(js[r.Intn(len(js))])}}
		}
		return &gnmi.TypedValue{Value: &gnmi.TypedValue_JsonIetfVal{JsonIetfVal: []byte(js[r.Intn(len(js))])}}
	case 9:
		if r.Chance(1, 2) {
			return &gnmi.TypedValue{Value: &gnmi.TypedValue_AnyVal{AnyVal: nil}}
		}
		return &gnmi.TypedValue{Value: &gnmi.TypedValue_AnyVal{AnyVal: &anypb.Any{TypeUrl: hName(r), Value: []byte(hName(r))}}}
	case 10:
		return &gnmi.TypedValue{Value: &gnmi.TypedValue_ProtoBytes{ProtoBytes: []byte(hName(r))}}
	}
	return &gnmi.TypedValue{}
}

func hValue(r *fw.Rng) *gnmi.TypedValue {
	if r.Chance(1, 15) {
		return nil
	}
	if r.Chance(1, 5) {
		if r.Chance(1, 5) {
			return &gnmi.TypedValue{Value: &gnmi.TypedValue_LeaflistVal{LeaflistVal: nil}}
		}
		arr := &gnmi.ScalarArray{}
		same := hScalar(r)
		for i := r.Intn(5); i > 0; i-- {
			if r.Chance(2, 3) {
				arr.Element = append(arr.Element, proto.Clone(same).(*gnmi.TypedValue))
			} else {
				arr.Element = append(arr.Element, hScalar(r))
			}
		}
		return &gnmi.TypedValue{Value: &gnmi.TypedValue_LeaflistVal{LeaflistVal: arr}}
	}
	return hScalar(r)
}

// hOverrideFor is a target-version-override extension that names the target the request itself addresses: an entry
// without a value (a key alone on the wire decodes to a nil map value), an unknown type or version, or the target's own
// model. The undirected hExtensions reaches "override for the addressed target of a well-formed request" too rarely for
// the quick tier (seeded change s-C12-4: the nil check of Get's addTarget dropped while Set keeps its own).
func hOverrideFor(r *fw.Rng, tg string) *gnmi_ext.Extension {
	ov := &configapi.TargetVersionOverrides{Overrides: map[string]*configapi.TargetTypeVersion{}}
	switch r.Intn(4) {
	case 0:
		ov.Overrides[tg] = nil
	case 1:
		ov.Overrides[tg] = &configapi.TargetTypeVersion{}
	case 2:
		ov.Overrides[tg] = &configapi.TargetTypeVersion{TargetType: configapi.TargetType(hName(r)), TargetVersion: configapi.TargetVersion(hName(r))}
	case 3:
		ov.Overrides[tg] = &configapi.TargetTypeVersion{TargetType: "synth", TargetVersion: "1.0.0"}
	}
	if r.Chance(1, 4) {
		ov.Overrides[hostileTargets[r.Intn(len(hostileTargets))]] = nil
	}
	msg, _ := ov.Marshal()
	return &gnmi_ext.Extension{Ext: &gnmi_ext.Extension_RegisteredExt{RegisteredExt: &gnmi_ext.RegisteredExtension{Id: configapi.TargetVersionOverridesID, Msg: msg}}}
}

func hExtensions(r *fw.Rng) []*gnmi_ext.Extension {
	var out []*gnmi_ext.Extension
	for i := r.Intn(3); i > 0 && r.Chance(1, 2); i-- {
		switch r.Intn(5) {
		case 0:
			ids := []gnmi_ext.ExtensionID{configapi.TransactionStrategyExtensionID, configapi.TargetVersionOverridesID, configapi.TransactionInfoExtensionID, 0, 1, 100, 101, 102, 111, 999}
			var msg []byte
			id := ids[r.Intn(len(ids))]
			kind := r.Intn(4)
			if r.Chance(3, 4) {
				// mostly the registered id that matches the payload, so that the payload is really decoded
				switch kind {
				case 0:
					id = configapi.TransactionStrategyExtensionID
				case 1:
					id = configapi.TargetVersionOverridesID
				}
			}
			switch kind {
			case 0:
				msg, _ = (&configapi.TransactionStrategy{Synchronicity: configapi.TransactionStrategy_Synchronicity(r.Intn(3)), Isolation: configapi.TransactionStrategy_Isolation(r.Intn(3))}).Marshal()
			case 1:
				ov := &configapi.TargetVersionOverrides{Overrides: map[string]*configapi.TargetTypeVersion{}}
				ov.Overrides[hostileTargets[r.Intn(len(hostileTargets))]] = &configapi.TargetTypeVersion{TargetType: configapi.TargetType(hName(r)), TargetVersion: "1.0.0"}
				if r.Chance(1, 3) {
					ov.Overrides["t1"] = nil
				}
				if r.Chance(1, 3) {
					ov.Overrides["t1"] = &configapi.TargetTypeVersion{TargetType: "synth", TargetVersion: "1.0.0"}
				}
				msg, _ = ov.Marshal()
			case 2:
				msg = []byte(hName(r) + "\xff\x01\x02")
			}
			out = append(out, &gnmi_ext.Extension{Ext: &gnmi_ext.Extension_RegisteredExt{RegisteredExt: &gnmi_ext.RegisteredExtension{Id: id, Msg: msg}}})
		case 1:
			out = append(out, &gnmi_ext.Extension{Ext: &gnmi_ext.Extension_MasterArbitration{MasterArbitration: &gnmi_ext.MasterArbitration{}}})
		case 2:
			out = append(out, &gnmi_ext.Extension{Ext: &gnmi_ext.Extension_RegisteredExt{RegisteredExt: nil}})
		case 3:
			out = append(out, &gnmi_ext.Extension{})
		case 4:
			out = append(out, &gnmi_ext.Extension{Ext: &gnmi_ext.Extension_History{History: &gnmi_ext.History{}}})
		}
	}
	return out
}

func hSetRequest(r *fw.Rng) *gnmi.SetRequest {
	if r.Chance(1, 4) {
		// nearly valid: well-formed paths and values, so that the request is logged and the controllers process it
		req := &gnmi.SetRequest{}
		tg := []string{"t1", "t2"}[r.Intn(2)]
		leaves := []string{"/foo", "/bar", "/a/b", "/a/bc", "/c/l[k=x]/v", "/c/m[k1=1][k2=2]/v", "/cont/leaf2", "/c/l[k=x]/k", "/c/l[k=x]/n", "/t/u64", "/t/flt", "/t/ll-str", "/c/l[k=x]/in[id=1]/w"}
		for i := 1 + r.Intn(3); i > 0; i-- {
			p := leaves[r.Intn(len(leaves))]
			v := hName(r)
			if p == "/c/l[k=x]/k" {
				v = "x"
			}
			if r.Chance(1, 4) {
				req.Delete = append(req.Delete, refmodel.MustParse(p).ToGNMI(tg))
			} else if r.Chance(1, 3) {
				// a well-formed path of the model with a value of any type and shape (an integer for a string leaf, ...)
				u := &gnmi.Update{Path: refmodel.MustParse(p).ToGNMI(tg), Val: hValue(r)}
				if r.Chance(1, 2) {
					req.Replace = append(req.Replace, u)
				} else {
					req.Update = append(req.Update, u)
				}
			} else {
				req.Update = append(req.Update, &gnmi.Update{Path: refmodel.MustParse(p).ToGNMI(tg), Val: &gnmi.TypedValue{Value: &gnmi.TypedValue_StringVal{StringVal: v}}})
			}
		}
		if r.Chance(1, 4) {
			req.Extension = hExtensions(r)
		}
		if r.Chance(1, 4) {
			req.Extension = append(req.Extension, hOverrideFor(r, tg))
		}
		if r.Chance(1, 6) {
			req.Delete = append(req.Delete, &gnmi.Path{Target: tg})
		}
		return req
	}
	req := &gnmi.SetRequest{Extension: hExtensions(r)}
	if r.Chance(1, 2) {
		req.Prefix = hPath(r)
	}
	for i := r.Intn(3); i > 0; i-- {
		if p := hPath(r); p != nil {
			req.Delete = append(req.Delete, p)
		}
	}
	for i := r.Intn(3); i > 0 && r.Chance(1, 2); i-- {
		req.Replace = append(req.Replace, &gnmi.Update{Path: hPath(r), Val: hValue(r)})
	}
	for i := r.Intn(4); i > 0; i-- {
		u := &gnmi.Update{Path: hPath(r), Val: hValue(r)}
		if r.Chance(1, 20) {
			u.Duplicates = 3
		}
		req.Update = append(req.Update, u)
	}
	return req
}

func hGetRequest(r *fw.Rng) *gnmi.GetRequest {
	if r.Chance(1, 3) {
		// nearly valid: the shapes real clients send - path only, prefix + path, prefix only, whole target
		tg := []string{"t1", "t2", "t1"}[r.Intn(3)]
		paths := []string{"/foo", "/a", "/a/b", "/c", "/c/l[k=x]", "/c/l[k=*]/v", "/c/l", "/nosuch", "/state/counter"}
		req := &gnmi.GetRequest{Encoding: []gnmi.Encoding{gnmi.Encoding_PROTO, gnmi.Encoding_JSON_IETF, gnmi.Encoding_JSON, gnmi.Encoding_PROTO}[r.Intn(4)]}
		switch r.Intn(5) {
		case 0:
			req.Path = []*gnmi.Path{refmodel.MustParse(paths[r.Intn(len(paths))]).ToGNMI(tg)}
		case 1:
			req.Prefix = &gnmi.Path{Target: tg}
			req.Path = []*gnmi.Path{refmodel.MustParse(paths[r.Intn(len(paths))]).ToGNMI("")}
		case 2:
			req.Prefix = &gnmi.Path{Target: tg} // prefix only, no path at all
		case 3:
			req.Prefix = refmodel.MustParse([]string{"/a", "/c", "/c/l[k=x]"}[r.Intn(3)]).ToGNMI(tg) // prefix with elems only
		case 4:
			req.Path = []*gnmi.Path{{Target: tg}}
		}
		if r.Chance(1, 6) {
			req.Extension = hExtensions(r)
		}
		if r.Chance(1, 4) {
			req.Extension = append(req.Extension, hOverrideFor(r, tg))
		}
		return req
	}
	req := &gnmi.GetRequest{Extension: hExtensions(r)}
	if r.Chance(1, 2) {
		req.Prefix = hPath(r)
	}
	for i := r.Intn(4); i > 0; i-- {
		if p := hPath(r); p != nil {
			req.Path = append(req.Path, p)
		}
	}
	req.Encoding = gnmi.Encoding(r.Intn(7))
	if r.Chance(1, 2) {
		req.Encoding = gnmi.Encoding_PROTO
	}
	req.Type = gnmi.GetRequest_DataType(r.Intn(5))
	if r.Chance(2, 3) {
		req.Type = gnmi.GetRequest_ALL
	}
	if r.Chance(1, 10) {
		req.UseModels = []*gnmi.ModelData{{Name: hName(r)}}
	}
	return req
}

func hSubscribeRequest(r *fw.Rng) *gnmi.SubscribeRequest {
	switch r.Intn(6) {
	case 0:
		return &gnmi.SubscribeRequest{Request: &gnmi.SubscribeRequest_Poll{Poll: &gnmi.Poll{}}}
	case 1:
		return &gnmi.SubscribeRequest{}
	case 2:
		return &gnmi.SubscribeRequest{Request: &gnmi.SubscribeRequest_Subscribe{Subscribe: nil}}
	}
	sl := &gnmi.SubscriptionList{Mode: gnmi.SubscriptionList_Mode(r.Intn(4)), Encoding: gnmi.Encoding(r.Intn(6)), UpdatesOnly: r.Chance(1, 2)}
	if r.Chance(1, 2) {
		sl.Prefix = hPath(r)
	}
	for i := r.Intn(4); i > 0; i-- {
		s := &gnmi.Subscription{Path: hPath(r), Mode: gnmi.SubscriptionMode(r.Intn(4)), SampleInterval: uint64(r.Intn(3))}
		sl.Subscription = append(sl.Subscription, s)
	}
	if r.Chance(1, 10) {
		sl.Qos = &gnmi.QOSMarking{Marking: 5}
	}
	return &gnmi.SubscribeRequest{Request: &gnmi.SubscribeRequest_Subscribe{Subscribe: sl}, Extension: hExtensions(r)}
}

func hLeafSelection(r *fw.Rng) *adminapi.LeafSelectionQueryRequest {
	req := &adminapi.LeafSelectionQueryRequest{Target: hostileTargets[r.Intn(len(hostileTargets))], Type: "synth", Version: "1.0.0", SelectionPath: "/" + hName(r)}
	if r.Chance(1, 4) {
		req.Type = hName(r)
	}
	if r.Chance(1, 2) {
		req.ChangeContext = hSetRequest(r)
	}
	return req
}

// wireRoundTrip returns the request as decoded from its own wire form (nil if it cannot be encoded / decoded)
func wireRoundTrip(m proto.Message, mutate *fw.Rng) (proto.Message, []byte) {
	b, err := proto.Marshal(m)
	if err != nil {
		return nil, nil
	}
	if mutate != nil && len(b) > 0 {
		b = append([]byte(nil), b...)
		switch mutate.Intn(4) {
		case 0:
			b[mutate.Intn(len(b))] ^= byte(1 << uint(mutate.Intn(8)))
		case 1:
			b = b[:mutate.Intn(len(b))]
		case 2:
			i := mutate.Intn(len(b))
			b = append(b[:i], append([]byte{byte(mutate.Intn(256))}, b[i:]...)...)
		case 3:
			i, j := mutate.Intn(len(b)), mutate.Intn(len(b))
			b[i], b[j] = b[j], b[i]
		}
	}
	out := m.ProtoReflect().New().Interface()
	if err := proto.Unmarshal(b, out); err != nil {
		return nil, nil
	}
	return out, b
}
