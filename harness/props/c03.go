package props

import (
	"context"
	"fmt"
	"regexp"
	"sort"
	"strings"
	"time"

	"github.com/openconfig/gnmi/proto/gnmi"

	"verif/engine"
	"verif/fw"
	"verif/refmodel"
	"verif/world"
)

// query is a Get path with optional key wildcards ("*") and "..." elements
type query struct {
	full      refmodel.Path // complete path (prefix + path)
	prefixLen int           // number of leading elements sent in the prefix
}

func qElemMatches(q, e refmodel.Elem) bool {
	if q.Name == "*" && len(q.Keys) == 0 {
		return true
	}
	if q.Name != e.Name {
		return false
	}
	for _, kv := range q.Keys {
		ok := false
		for _, ev := range e.Keys {
			if ev.K == kv.K && (kv.V == "*" || kv.V == ev.V) {
				ok = true
			}
		}
		if !ok {
			return false
		}
	}
	return true
}

// qMatches: leaf path p is selected by query q (element-wise; "..." stands for one or more elements)
func qMatches(q, p refmodel.Path) bool {
	if len(q) == 0 {
		return true
	}
	if q[0].Name == "..." {
		for skip := 1; skip <= len(p); skip++ {
			if qMatches(q[1:], p[skip:]) {
				return true
			}
		}
		return false
	}
	if len(p) == 0 || !qElemMatches(q[0], p[0]) {
		return false
	}
	return qMatches(q[1:], p[1:])
}

func modelAnswer(t refmodel.Tree, q refmodel.Path) refmodel.Tree {
	out := refmodel.Tree{}
	for k, le := range t {
		if qMatches(q, le.P) {
			out[k] = le
		}
	}
	return out
}

var c03Queries = []string{"/a", "/a/b", "/a/bc", "/a/d", "/fo", "/foo", "/cont", "/cont/leaf2", "/cont-x", "/c", "/c/l[k=x]", "/c/l[k=*]", "/c/l[k=x]/v", "/c/l[k=*]/v",
	"/c/l[k=x]/in[id=1]", "/c/l[k=x]/in[id=*]/w", "/c/m[k1=1][k2=*]", "/c/m[k1=*][k2=2]/v", "/c/m[k1=1][k2=2]", "/c/lx[k=x]", "/c/.../w", "/c/.../v", "/ab", "/goo", "/c/l[k=xy]",
	"/c/l", "/c/m", "/c/lx", "/c/l[k=x]/in", "/c/m[k1=1]", "/a/*", "/c/*", "/c/l[k=x]/*", "/*"}

func getQuery(inc *world.Incarnation, target string, q query, enc gnmi.Encoding) (*gnmi.GetResponse, error) {
	req := &gnmi.GetRequest{Encoding: enc}
	pre := q.full[:q.prefixLen]
	rest := q.full[q.prefixLen:]
	if q.prefixLen > 0 {
		req.Prefix = pre.ToGNMI(target)
		req.Path = []*gnmi.Path{rest.ToGNMI("")}
	} else {
		req.Path = []*gnmi.Path{rest.ToGNMI(target)}
	}
	return inc.Server.Get(context.Background(), req)
}

func treeOfProto(resp *gnmi.GetResponse) refmodel.Tree {
	t := refmodel.Tree{}
	for _, n := range resp.GetNotification() {
		for _, u := range n.Update {
			if u.Val == nil {
				continue
			}
			t.Set(refmodel.FromGNMI(u.Path), refmodel.ValOfGNMI(u.Val))
		}
	}
	return t
}

func treeOfJSON(s *refmodel.Schema, resp *gnmi.GetResponse) (refmodel.Tree, []string) {
	t := refmodel.Tree{}
	var problems []string
	for _, n := range resp.GetNotification() {
		for _, u := range n.Update {
			if u.Val == nil {
				continue
			}
			j := u.Val.GetJsonVal()
			if j == nil {
				j = u.Val.GetJsonIetfVal()
			}
			flat, pr := refmodel.Flatten(s, j)
			problems = append(problems, pr...)
			for k, fl := range flat {
				t[k] = refmodel.LeafEntry{P: fl.P, V: fl.V}
			}
		}
	}
	return t, problems
}

var diffPathRe = regexp.MustCompile(`^(.*?)=[a-z?]:`)

// ancestorClash: the request deletes a path and also updates or deletes something at or beneath it (known finding: the outcome
// depends on Go map iteration order in the proposal controller)
func ancestorClash(s *refmodel.Schema, ops []refmodel.Op) bool {
	eff := func(o refmodel.Op) refmodel.Path {
		if n := s.NodeOf(o.P); o.Del && n != nil && n.IsKeyLeaf() {
			return o.P.Parent()
		}
		return o.P
	}
	for i, d := range ops {
		if !d.Del {
			continue
		}
		for k, u := range ops {
			if i != k && eff(u).Under(eff(d)) && !(u.Del && eff(u).Equal(eff(d))) {
				return true
			}
		}
	}
	return false
}

func relationClass(s *refmodel.Schema, d []string, ops []refmodel.Op) string {
	// classify the first difference by its relation to the paths the last request operated on
	if len(d) == 0 {
		return ""
	}
	f := strings.SplitN(d[0], " ", 2)
	kind := f[0]
	ps := f[1]
	if m := diffPathRe.FindStringSubmatch(f[1]); m != nil {
		ps = m[1]
	}
	p, err := refmodel.Parse(ps)
	if err != nil {
		return kind + "/unparsable"
	}
	rel := "unrelated"
	for _, o := range ops {
		switch {
		case p.Equal(o.P):
			rel = "operated-path"
		case p.Under(o.P):
			rel = "descendant"
		case o.P.Under(p):
			rel = "ancestor"
		case len(p) == len(o.P) && len(p) > 0 && p.Parent().Equal(o.P.Parent()) && (strings.HasPrefix(p[len(p)-1].Name, o.P[len(o.P)-1].Name) || strings.HasPrefix(o.P[len(o.P)-1].Name, p[len(p)-1].Name)):
			rel = "sibling-prefix"
		}
		if rel != "unrelated" {
			break
		}
	}
	return kind + "/" + rel
}

// c03Run executes one sequential history on one target and compares Get with the reference tree after every acknowledged operation
func c03Run(c *fw.Case, steps []engine.Step, clash bool) {
	p := &engine.Profile{Targets: []string{"t1"}, MinOps: 5, MaxOps: 22, PPoison: 6, PEq: 8, PDelete: 40, PRollback: 10, Paths: "rich", AllowClash: clash}
	opts := world.Options{Targets: p.Targets}
	w, err := world.New(opts)
	if err != nil {
		c.Inconclusive("world: " + err.Error())
		return
	}
	defer w.Close()
	r := c.Rng.Fork("c03")
	w.Connect("t1")
	if steps == nil {
		steps = engine.GenScenario(c.Rng.Fork("scenario"), p, w.Schema)
	}
	e := &engine.Exec{C: c, W: w, P: p, Opts: opts}
	m := refmodel.NewModel(w.Schema, p.Targets)
	var script []string
	shapes := map[string]bool{}
	clashed := false
	for _, st := range steps {
		var call *engine.Call
		var lastOps []refmodel.Op
		switch st.Kind {
		case "set":
			call = e.IssueSet(st.Ops, false)
			lastOps = st.Ops
			for _, o := range st.Ops {
				n := w.Schema.NodeOf(o.P)
				sh := "update"
				if o.Del {
					sh = "delete"
				}
				if n != nil {
					switch {
					case n.Kind == refmodel.List:
						sh += "-list-entry"
					case n.Kind == refmodel.Container:
						sh += "-container"
					case n.IsKeyLeaf():
						sh += "-key-leaf"
					default:
						sh += "-leaf"
					}
					if n.HasSiblingPrefix() {
						sh += "-sibling-prefix"
					}
				}
				if !o.Del {
					for anc := o.P.Parent(); len(anc) > 0; anc = anc.Parent() {
						if len(modelAnswer(m.Cfg["t1"], anc)) == 0 && everDeleted(script, anc) {
							sh += "-recreate-under-deleted"
							break
						}
					}
				}
				shapes[sh] = true
			}
		case "rollback":
			n := len(m.Outs)
			if n == 0 {
				continue
			}
			call = e.IssueRollback(uint64(n))
			shapes["rollback"] = true
		default:
			continue
		}
		select {
		case <-call.Done():
		case <-time.After(60 * time.Second):
			c.Violate("answer", "answer/unanswered", fmt.Sprintf("%s was not answered within 60 s", st.String()), nil)
			dumpWorld(c, e)
			return
		}
		idx := uint64(len(m.Outs) + 1)
		in := refmodel.TxIn{Index: idx, Ops: st.Ops}
		if st.Kind == "rollback" {
			in = refmodel.TxIn{Index: idx, Rollback: true, RollbackIndex: call.RbIndex}
		}
		out := m.Apply(in)
		script = append(script, fmt.Sprintf("%s -> %s", st.String(), engine.ErrClass(call.Err)))
		c.Tracef("%s -> %v (model: committed=%v %s)", st.String(), call.Err, out.Committed, out.Reason)
		c.Count("acknowledged_operations", 1)
		if st.Kind == "set" && ancestorClash(w.Schema, st.Ops) {
			// the damage of such a request can surface at a later operation (e.g. its rollback): the rest of
			// this history is attributed to the known finding
			clashed = true
		}
		if st.Kind == "set" && ancestorClash(w.Schema, st.Ops) {
			c.Count("requests_with_an_operation_beneath_a_deleted_path", 1)
		}
		if (call.Err == nil) != out.Committed {
			key := fmt.Sprintf("answer/verdict/ok=%v-want-ok=%v", call.Err == nil, out.Committed)
			if clashed {
				key = "config/same-request-operation-beneath-deleted-path"
			}
			c.Violate("answer", key, fmt.Sprintf("%s answered %v, model says committed=%v (%s)", st.String(), call.Err, out.Committed, out.Reason), nil)
			dumpWorld(c, e)
			return
		}
		want := m.Cfg["t1"]
		// whole target, PROTO and JSON
		qs := []query{{full: nil}}
		for i := 0; i < 3; i++ {
			q := refmodel.MustParse(c03Queries[r.Intn(len(c03Queries))])
			pl := 0
			if len(q) > 1 && r.Chance(1, 3) && q[0].Name != "..." {
				pl = 1 + r.Intn(len(q)-1)
				for _, el := range q[:pl] {
					if el.Name == "..." {
						pl = 0
					}
				}
			}
			qs = append(qs, query{full: q, prefixLen: pl})
		}
		for qi, q := range qs {
			exp := modelAnswer(want, q.full)
			resp, err := getQuery(w.Cur(), "t1", q, gnmi.Encoding_PROTO)
			c.Count("get_queries", 1)
			if err != nil {
				if len(m.Outs) > 0 && !(engine.ErrClass(err) == "NotFound" && noneCommitted(m)) {
					c.Violate("config", "config/get-error", fmt.Sprintf("Get %s failed: %v", q.full, err), nil)
					dumpWorld(c, e)
					return
				}
				continue
			}
			got := treeOfProto(resp)
			if d := got.Diff(exp); len(d) > 0 {
				key := "config/" + relationClass(w.Schema, d, lastOps)
				if qi > 0 {
					key = "config/query/" + relationClass(w.Schema, d, []refmodel.Op{{P: q.full}})
				}
				if clashed {
					key = "config/same-request-operation-beneath-deleted-path"
				}
				c.Violate("config", key, fmt.Sprintf("after %q: PROTO Get %s (prefix %d elems) differs from the sequential effect: %v", st.String(), q.full, q.prefixLen, d), nil)
				dumpWorld(c, e)
				return
			}
			if len(exp) > 0 {
				c.Count("non_empty_answers", 1)
			}
			if qi == 0 || r.Chance(1, 2) {
				resp, err := getQuery(w.Cur(), "t1", q, gnmi.Encoding_JSON_IETF)
				if err != nil {
					c.Violate("config", "config/get-error-json", fmt.Sprintf("JSON Get %s failed: %v", q.full, err), nil)
					return
				}
				jt, problems := treeOfJSON(w.Schema, resp)
				c.Count("json_get_queries", 1)
				if len(problems) > 0 {
					c.Violate("config", "config/json-malformed", fmt.Sprintf("JSON Get %s: %v", q.full, problems), nil)
					return
				}
				if d := jt.WithoutKeyLeaves(w.Schema).Diff(exp.WithoutKeyLeaves(w.Schema)); len(d) > 0 {
					key := "config/json/" + relationClass(w.Schema, d, lastOps)
					if clashed {
						key = "config/same-request-operation-beneath-deleted-path"
					}
					c.Violate("config", key, fmt.Sprintf("after %q: JSON Get %s differs from the sequential effect: %v", st.String(), q.full, d), nil)
					dumpWorld(c, e)
					return
				}
			}
		}
	}
	var sh []string
	for s := range shapes {
		sh = append(sh, s)
		c.Distinct("operation_shape", s)
	}
	sort.Strings(sh)
	c.Class(strings.Join(sh, ","))
	if len(m.Outs) == 0 {
		c.Trivial()
	}
	c.Count("executions", 1)
	if c.Index%25 == 0 {
		c.Sample(map[string]interface{}{"history": script, "final_configuration": m.Cfg["t1"].String()})
	}
	e.CancelAll()
}

func noneCommitted(m *refmodel.Model) bool {
	for _, o := range m.Outs {
		if o.Committed {
			return false
		}
	}
	return true
}

func everDeleted(script []string, p refmodel.Path) bool {
	needle := ":-" + p.String()
	for _, s := range script {
		if strings.Contains(s, needle+" ") || strings.Contains(s, needle+"]") {
			return true
		}
	}
	return false
}

func init() {
	ws := witnessesFor("C03")
	fw.Register(&fw.Check{ID: "C03", Level: "exploration",
		Technique: "runtime monitoring: sequential Set/rollback histories through the real northbound and controllers; after every acknowledged operation whole-target and sub-path Gets (PROTO and JSON, wildcards, prefixes) are compared with an independent element-wise gNMI reference tree",
		Rule: "cases = regression witnesses + PRNG histories of 5..22 operations on one target over the synthetic schema (leaf / container / list-entry / key-leaf deletes, re-creation under deleted ancestors, sibling names sharing textual prefixes, multi-key entries, rollbacks); every third case allows clashing operations inside one request (delete ancestor + update descendant, update + delete of one path); the last two cases are a directed schedule (a mastership election that spans a commit and its apply); " +
			"a case is non-trivial when at least one operation was committed; distinct_nontrivial = distinct sets of operation shapes",
		Assumptions: s2Assumptions, CaseTimeout: 300e9,
		Floors: map[string]int64{"acknowledged_operations": 1200, "get_queries": 4000, "non_empty_answers": 1500, "json_get_queries": 1500},
		Cases: func(tier string) int {
			if tier == "thorough" {
				return len(ws) + 8000 + 2
			}
			return len(ws) + 150 + 2
		},
		Run: func(c *fw.Case) {
			n := len(ws) + 150
			if c.Tier == "thorough" {
				n = len(ws) + 8000
			}
			if c.Index >= n {
				// directed: an election that spans a commit (and its apply) must not bring back what the stored
				// configuration held before that commit
				s2ElectionSpansCommitAndApply(c, "C03", c.Index == n+1)
				return
			}
			if c.Index < len(ws) {
				c.Count("regression_witnesses_replayed", 1)
				c03Run(c, ws[c.Index].Steps, false)
				c.Class("witness:" + ws[c.Index].Name)
				return
			}
			c03Run(c, nil, c.Index%3 == 0)
		}})
}
