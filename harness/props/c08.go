package props

import (
	"context"
	"fmt"
	"strings"
	"sync/atomic"
	"time"

	configapi "github.com/onosproject/onos-api/go/onos/config/v2"

	"verif/engine"
	"verif/fw"
	"verif/refmodel"
	"verif/world"
)

// c08Run probes one Set / rollback whose handler is held between its "create transaction" and "subscribe to its
// events" steps until the controllers have performed k further persisted effects (or have gone idle). The events
// the handler is then shown are forwarded one by one; after an event that carries the stage the caller waits for,
// or a final state, the handler must return and not come back for more - decided without a clock by offering it
// a duplicate of that event.
func c08Run(c *fw.Case, kind string, sync bool, k int, offline bool, inWatch bool) {
	p := &engine.Profile{Targets: []string{"t1", "t2"}}
	opts := world.Options{Targets: p.Targets}
	w, err := world.New(opts)
	if err != nil {
		c.Inconclusive("world: " + err.Error())
		return
	}
	defer w.Close()
	e := &engine.Exec{C: c, W: w, P: p, Opts: opts}
	if !offline {
		w.Connect("t1")
	}
	w.Connect("t2")
	r := c.Rng.Fork("c08")
	// a little history first
	pre := []engine.Step{set(up("t1", "/foo", "v0"), up("t1", "/a/b", "v0")), set(up("t2", "/foo", "v0"))}
	if kind == "rollback-older" {
		pre = append(pre, set(up("t1", "/bar", "v1")))
	}
	e.Steps = pre
	e.RunSteps()
	var probeName string
	var violated int32
	var cameBack int32
	hold := func(counter string) {
		target := w.Effects() + int64(k)
		deadline := time.Now().Add(20 * time.Second)
		for w.Effects() < target && w.SinceLastChange() < 1500*time.Millisecond && time.Now().Before(deadline) {
			time.Sleep(200 * time.Microsecond)
		}
		c.Count(counter, w.Effects()-(target-int64(k)))
	}
	// second placement of the hold: inside the store's Watch, right after its replay read of the transaction (the
	// first IndexedMap/Get that a store-internal goroutine issues once the probe call is on its way)
	var armed int32
	if inWatch {
		w.SetStoreRPCHook(func(method string) {
			if strings.HasSuffix(method, "IndexedMap/Get") && atomic.CompareAndSwapInt32(&armed, 1, 0) {
				c.Count("watches_held_after_replay_read", 1)
				hold("effects_between_replay_read_and_next_step_of_watch")
			}
		})
	}
	w.SetHandlerWatch(func(ctx context.Context, ch chan<- configapi.TransactionEvent, call func(chan<- configapi.TransactionEvent) error) error {
		if world.CurrentTask() != probeName {
			return call(ch)
		}
		// hold the handler until the controllers are k effects further (or idle)
		if !inWatch {
			hold("effects_between_create_and_watch")
		}
		mid := make(chan configapi.TransactionEvent)
		if err := call(mid); err != nil {
			return err
		}
		done := e.Calls[len(e.Calls)-1].Done()
		go func() {
			defer close(ch)
			for ev := range mid {
				select {
				case ch <- ev:
				case <-done:
					for range mid {
					}
					return
				}
				st := ev.Transaction.Status.State
				awaited := st == configapi.TransactionStatus_FAILED || st == configapi.TransactionStatus_APPLIED ||
					(!sync && st == configapi.TransactionStatus_COMMITTED)
				if awaited {
					c.Count("handlers_shown_awaited_state", 1)
					select {
					case <-done:
					case ch <- ev:
						atomic.StoreInt32(&cameBack, 1)
						atomic.StoreInt32(&violated, 1)
					}
				}
			}
		}()
		return nil
	})
	var call *engine.Call
	atomic.StoreInt32(&armed, 1)
	switch kind {
	case "ok":
		call = e.IssueSet([]refmodel.Op{up("t1", "/goo", "v2"), up("t2", "/goo", "v2")}, sync)
	case "single":
		call = e.IssueSet([]refmodel.Op{up("t1", "/goo", "v2")}, sync)
	case "poison":
		call = e.IssueSet([]refmodel.Op{up("t1", "/goo", "POISON"), up("t2", "/goo", "v2")}, sync)
	case "devreject":
		call = e.IssueSet([]refmodel.Op{up("t1", "/goo", "DEVREJECT")}, sync)
	case "rollback-latest":
		call = e.IssueRollback(1)
	case "rollback-older":
		call = e.IssueRollback(1)
	case "rollback-unknown":
		call = e.IssueRollback(77)
	}
	probeName = call.Name()
	_ = r
	// the verdict does not depend on this wait: a handler that keeps waiting is caught by the duplicate probe above;
	// the wall-clock bound only ends cases in which the handler legitimately waits (nothing to observe)
	select {
	case <-call.Done():
	case <-time.After(30 * time.Second):
	}
	e.Settle(8*time.Second, 60*time.Second)
	j := e.Judge()
	e.CancelAll()
	s2Report(c, "C08", e, j)
	if atomic.LoadInt32(&cameBack) == 1 {
		dumpWorld(c, e)
		c.Violate("answer", "answer/kept-waiting-after-awaited-state", fmt.Sprintf("%s consumed the event carrying the state it waits for (or a final state) and came back for more events: it would wait for ever", call.Name()), nil)
	}
	c.Class(fmt.Sprintf("%s sync=%v offline=%v in-watch=%v", kind, sync, offline, inWatch))
	c.Distinct("placement", fmt.Sprintf("%s/%v/%v/%d/%v", kind, sync, offline, k, inWatch))
	c.Count("probed_calls", 1)
	if call.HasReturned() {
		c.Count("probed_calls_answered", 1)
	}
}

func init() {
	kinds := []string{"ok", "single", "poison", "devreject", "rollback-latest", "rollback-older", "rollback-unknown"}
	type placement struct {
		kind    string
		sync    bool
		k       int
		offline bool
		inWatch bool
	}
	build := func(maxK, step int) []placement {
		var ps []placement
		for _, kd := range kinds {
			for _, sy := range []bool{false, true} {
				if strings.HasPrefix(kd, "roll") && !sy {
					continue // rollbacks are always synchronous
				}
				for k := 0; k <= maxK; k += step {
					ps = append(ps, placement{kd, sy, k, false, false})
				}
			}
		}
		// asynchronous requests against an offline target are answered at COMMITTED
		for k := 0; k <= maxK; k += step * 2 {
			ps = append(ps, placement{"single", false, k, true, false})
		}
		// the hold inside Watch, after its replay read
		for _, kd := range kinds {
			for _, sy := range []bool{false, true} {
				if strings.HasPrefix(kd, "roll") && !sy {
					continue
				}
				for _, k := range []int{2, 6, 12, 20, 30, 45, 60} {
					if k <= maxK {
						ps = append(ps, placement{kd, sy, k, false, true})
					}
				}
			}
		}
		return ps
	}
	quick := build(60, 2)
	thorough := build(90, 1)
	fw.Register(&fw.Check{ID: "C08", Level: "exploration",
		Technique:   "runtime monitoring with injected delays: the handler is held between Create and Watch - and, in a second family of placements, the store's Watch is held right after its replay read of the transaction - until the controllers have performed k more persisted effects, k enumerated; clock-free duplicate-event probe decides 'keeps waiting'; responses and error classes vs the sequential model; OK answers ordered against the transaction's writes in the event log",
		Rule:        "placements = request kind {multi-target ok, single ok, validation failure, device refusal, rollback of latest / older / unknown index} x sync/async x k = 0,2,..,60 effects between the handler's Create and Watch (thorough: every k up to 90) + offline-target async + the same kinds with the hold inside Watch after its replay read for k in {2,6,12,20,30,45,60}; distinct_nontrivial = distinct placements executed",
		Assumptions: s2Assumptions, DistinctSet: "placement", CaseTimeout: 300e9,
		Floors: map[string]int64{"watches_held_after_replay_read": 50, "probed_calls_answered": 300, "handlers_shown_awaited_state": 300, "ok_answers_ordered_against_stage": 400},
		Cases: func(tier string) int {
			if tier == "thorough" {
				return len(thorough) * 3
			}
			return len(quick)
		},
		Run: func(c *fw.Case) {
			ps := quick
			if c.Tier == "thorough" {
				ps = thorough
			}
			pl := ps[c.Index%len(ps)]
			c08Run(c, pl.kind, pl.sync, pl.k, pl.offline, pl.inWatch)
		}})
}
