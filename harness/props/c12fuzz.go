package props

import (
	"context"
	"fmt"
	"os"
	"os/exec"
	"path/filepath"
	"regexp"
	"runtime"
	"strconv"
	"strings"
	"time"

	"verif/fw"
)

var (
	fuzzProgressRe = regexp.MustCompile(`execs: (\d+) \((\d+)/sec\), new interesting: (\d+) \(total: (\d+)\)`)
	fuzzBaselineRe = regexp.MustCompile(`gathering baseline coverage: (\d+)/(\d+) completed`)
	fuzzCrasherRe  = regexp.MustCompile(`testdata/fuzz/FuzzRequests/([0-9a-f]+)`)
)

// c12Fuzz runs the coverage-guided stage of C12 (props/fuzz_test.go) as a child `go test -fuzz` process for a fixed
// number of executions and turns its verdict into counters or a violation. The fuzz engine's own PRNG is not
// seedable: the seed corpus is a function of VERIF_SEED, the mutations are not. A failing input is kept by the
// engine under harness/props/testdata/fuzz/FuzzRequests/ and is re-executed first by every later run (so the replay
// of this case is deterministic); its text is also put into the replay file.
func c12Fuzz(c *fw.Case, execs int) {
	dir := os.Getenv("VERIF_HARNESS_DIR")
	if dir == "" {
		exe, _ := os.Executable()
		dir = filepath.Dir(filepath.Dir(exe))
	}
	if _, err := os.Stat(filepath.Join(dir, "props", "fuzz_test.go")); err != nil {
		c.Inconclusive("fuzz stage: harness sources not found at " + dir)
		return
	}
	par := runtime.NumCPU() / 2
	if par < 2 {
		par = 2
	}
	args := []string{"test", "-tags", "verif"}
	if mf := os.Getenv("VERIF_MODFILE"); mf != "" {
		args = append(args, "-modfile="+mf)
	}
	args = append(args, "-run", "^$", "-fuzz", "^FuzzRequests$", "-fuzztime", fmt.Sprintf("%dx", execs), "-fuzzminimizetime", "5s", "-parallel", fmt.Sprint(par), "./props/")
	ctx, cancel := context.WithTimeout(context.Background(), 14*time.Minute)
	defer cancel()
	cmd := exec.CommandContext(ctx, "go", args...)
	cmd.Dir = dir
	cmd.Env = append(os.Environ(), "GOFLAGS=-mod=mod", "GOPROXY=off", "GOSUMDB=off", "GOTOOLCHAIN=local", "POD_ID=onos-config-0", "VERIF_SEED="+fmt.Sprint(c.Seed))
	outB, err := cmd.CombinedOutput()
	var lines []string
	for _, l := range strings.Split(string(outB), "\n") {
		if strings.HasPrefix(l, "{") || strings.Contains(l, "jwt") { // the code under test logs JSON lines
			continue
		}
		lines = append(lines, l)
	}
	out := strings.Join(lines, "\n")
	if ctx.Err() != nil {
		c.Inconclusive("fuzz stage: watchdog (14 min) fired")
		return
	}
	var nExec, interesting, corpus, baseline int64
	for _, m := range fuzzProgressRe.FindAllStringSubmatch(out, -1) {
		nExec, _ = strconv.ParseInt(m[1], 10, 64)
		interesting, _ = strconv.ParseInt(m[3], 10, 64)
		corpus, _ = strconv.ParseInt(m[4], 10, 64)
	}
	for _, m := range fuzzBaselineRe.FindAllStringSubmatch(out, -1) {
		baseline, _ = strconv.ParseInt(m[1], 10, 64)
	}
	c.Count("fuzz_executions", nExec)
	c.Count("fuzz_seed_corpus_entries_executed", baseline)
	c.Count("fuzz_new_coverage_inputs", interesting)
	c.Count("fuzz_corpus_total", corpus)
	c.Class("coverage-guided")
	tail := out
	if len(tail) > 6000 {
		tail = tail[len(tail)-6000:]
	}
	if err == nil {
		c.Sample(map[string]interface{}{"fuzz_stage": fmt.Sprintf("%d executions, %d seed corpus entries, %d inputs with new coverage (corpus %d)", nExec, baseline, interesting, corpus)})
		return
	}
	if strings.Contains(out, "[build failed]") || strings.Contains(out, "[setup failed]") {
		c.Violate("harness", "harness/fuzz-build", "the fuzz target does not build: "+tail, nil)
		return
	}
	site := ""
	if i := strings.Index(out, "panic:"); i >= 0 {
		site = fw.HarnessPanicKey(out[i:])
	}
	if site == "" {
		site = fw.HarnessPanicKey(out)
	}
	crasher := ""
	if m := fuzzCrasherRe.FindStringSubmatch(out); m != nil {
		if b, err := os.ReadFile(filepath.Join(dir, "props", "testdata", "fuzz", "FuzzRequests", m[1])); err == nil {
			crasher = m[0] + ":\n" + string(b)
		}
	}
	if site == "" {
		// no frame of the code under test in the failure: a hang of a worker, a failure inside the harness or the engine
		c.Violate("harness", "harness/fuzz-stage", "the fuzz stage failed without a frame of onos-config in its output: "+tail, nil)
		return
	}
	c.Tracef("%s", tail)
	c.Violate("panic", "panic@"+site, "coverage-guided stage: a mutated request crashed the process at "+site+"\nfailing input kept in "+crasher, nil)
}
