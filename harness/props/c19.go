package props

import (
	"context"
	"fmt"
	"io"
	"sort"

	sb "github.com/onosproject/onos-config/pkg/southbound/gnmi"
	"github.com/openconfig/gnmi/proto/gnmi"
	"google.golang.org/protobuf/proto"

	"verif/fw"
	"verif/refmodel"
	"verif/world"
)

func c19Conn(w *world.World, target string) *world.Conn {
	id := w.Cur().Conns.Current(target)
	c, _ := w.Cur().Conns.Get(context.Background(), sb.ConnID(id))
	if c == nil {
		return nil
	}
	return c.(*world.Conn)
}

// refSplit is the reference split of a subscription request
func refSplit(req *gnmi.SubscribeRequest) (map[string]*gnmi.SubscribeRequest, bool) {
	sl := req.GetSubscribe()
	out := map[string]*gnmi.SubscribeRequest{}
	if t := sl.GetPrefix().GetTarget(); t != "" {
		out[t] = req
		return out, true
	}
	for _, s := range sl.GetSubscription() {
		t := s.GetPath().GetTarget()
		if t == "" {
			continue
		}
		tr := out[t]
		if tr == nil {
			tr = &gnmi.SubscribeRequest{Extension: req.Extension, Request: &gnmi.SubscribeRequest_Subscribe{Subscribe: &gnmi.SubscriptionList{
				Prefix: &gnmi.Path{Origin: sl.GetPrefix().GetOrigin(), Elem: sl.GetPrefix().GetElem(), Target: t},
				Qos:    sl.Qos, Mode: sl.Mode, AllowAggregation: sl.AllowAggregation, UseModels: sl.UseModels, Encoding: sl.Encoding, UpdatesOnly: sl.UpdatesOnly}}}
			out[t] = tr
		}
		tr.GetSubscribe().Subscription = append(tr.GetSubscribe().Subscription, s)
	}
	return out, len(out) > 0
}

func c19Run(c *fw.Case, n int) {
	targets := []string{"t1", "t2", "t3", "t4"}
	r := c.Rng.Fork("c19")
	// one world per case (a world keeps memory alive after Close); the recording clients are wiped per stream
	w, err := world.New(world.Options{Targets: targets, NoControllers: true})
	if err != nil {
		c.Inconclusive("world: " + err.Error())
		return
	}
	defer w.Close()
	for _, t := range targets {
		w.Connect(t)
	}
	for i := 0; i < n; i++ {
		for _, t := range targets {
			if conn := c19Conn(w, t); conn != nil {
				conn.Subs, conn.Handlers, conn.Polls = nil, nil, 0
			}
		}
		// the subscription
		sl := &gnmi.SubscriptionList{Mode: gnmi.SubscriptionList_Mode(r.Intn(3)), Encoding: gnmi.Encoding(r.Intn(5)), UpdatesOnly: r.Chance(1, 2), AllowAggregation: r.Chance(1, 3)}
		if r.Chance(1, 4) {
			sl.Qos = &gnmi.QOSMarking{Marking: uint32(r.Intn(64))}
		}
		if r.Chance(1, 5) {
			sl.UseModels = []*gnmi.ModelData{{Name: "synth", Organization: "verif", Version: "1"}}
		}
		prefixKind := r.Intn(4) // 0 absent, 1 elems only, 2 target, 3 target + elems
		switch prefixKind {
		case 1:
			sl.Prefix = refmodel.MustParse("/c").ToGNMI("")
			sl.Prefix.Origin = "openconfig"
		case 2:
			sl.Prefix = &gnmi.Path{Target: targets[r.Intn(4)]}
		case 3:
			sl.Prefix = refmodel.MustParse("/a").ToGNMI(targets[r.Intn(4)])
		}
		paths := []string{"/foo", "/a/b", "/c/l[k=x]/v", "/c/l[k=*]", "/state/counter", "/c"}
		nSubs := 1 + r.Intn(8)
		for k := 0; k < nSubs; k++ {
			tg := targets[r.Intn(1+r.Intn(4))]
			if r.Chance(1, 8) {
				tg = ""
			}
			s := &gnmi.Subscription{Path: refmodel.MustParse(paths[r.Intn(len(paths))]).ToGNMI(tg), Mode: gnmi.SubscriptionMode(r.Intn(3)), SampleInterval: uint64(r.Intn(5)) * 1e9,
				SuppressRedundant: r.Chance(1, 3), HeartbeatInterval: uint64(r.Intn(3)) * 1e9}
			sl.Subscription = append(sl.Subscription, s)
		}
		if r.Chance(1, 15) {
			for _, s := range sl.Subscription {
				s.Path.Target = ""
			}
		}
		sub := &gnmi.SubscribeRequest{Request: &gnmi.SubscribeRequest_Subscribe{Subscribe: sl}}
		rt, _ := wireRoundTrip(sub, nil)
		sub = rt.(*gnmi.SubscribeRequest)
		pristine := proto.Clone(sub).(*gnmi.SubscribeRequest)
		want, ok := refSplit(pristine)
		// message sequence on the stream
		seqKind := r.Intn(6) // 0 sub | 1 sub,poll | 2 sub,poll,poll | 3 poll (before subscribing) | 4 sub,sub | 5 sub,poll,sub
		var msgs []*gnmi.SubscribeRequest
		poll := func() *gnmi.SubscribeRequest {
			return &gnmi.SubscribeRequest{Request: &gnmi.SubscribeRequest_Poll{Poll: &gnmi.Poll{}}}
		}
		polls := 0
		switch seqKind {
		case 0:
			msgs = []*gnmi.SubscribeRequest{sub}
		case 1:
			msgs = []*gnmi.SubscribeRequest{sub, poll()}
			polls = 1
		case 2:
			msgs = []*gnmi.SubscribeRequest{sub, poll(), poll()}
			polls = 2
		case 3:
			msgs = []*gnmi.SubscribeRequest{poll(), sub}
		case 4:
			msgs = []*gnmi.SubscribeRequest{sub, proto.Clone(sub).(*gnmi.SubscribeRequest)}
		case 5:
			msgs = []*gnmi.SubscribeRequest{sub, poll(), proto.Clone(sub).(*gnmi.SubscribeRequest)}
			polls = 1
		}
		st := &fakeStream{ctx: context.Background(), in: msgs}
		// a named target may lose its southbound connection between the subscription and a poll: the other
		// targets are still polled and the subscriber keeps its stream
		lost := ""
		conns := map[string]*world.Conn{}
		for _, t := range targets {
			conns[t] = c19Conn(w, t)
		}
		if (seqKind == 1 || seqKind == 2) && ok && len(want) >= 2 && r.Chance(1, 3) {
			var named []string
			for t := range want {
				named = append(named, t)
			}
			sort.Strings(named)
			lost = named[r.Intn(len(named))]
			st.beforeRecv = func(n int) {
				if n == 1 {
					w.Disconnect(lost)
				}
			}
			c.Count("streams_with_a_target_lost_before_a_poll", 1)
		}
		var serr error
		guarded(c, "Subscribe", nil, func() { serr = w.Cur().Server.Subscribe(subStream{st}) })
		if c.Violated() {
			return
		}
		c.Count("streams", 1)
		if i == 0 && c.Index%20 == 0 {
			c.Sample(map[string]interface{}{"request": fmt.Sprint(pristine), "sequence_kind": seqKind, "stream_result": fmt.Sprint(serr), "targets_expected": len(want)})
		}
		c.Distinct("stream_shape", fmt.Sprintf("prefix=%d seq=%d targets=%d", prefixKind, seqKind, len(want)))
		fail := func(key, format string, args ...interface{}) {
			c.Violate("subscribe", key, fmt.Sprintf(format, args...)+fmt.Sprintf("\nrequest: %v\nsequence kind %d", pristine, seqKind), nil)
		}
		mustRefuse := seqKind == 3 || seqKind == 4 || seqKind == 5 || !ok
		if mustRefuse {
			c.Count("streams_that_must_be_refused", 1)
			if serr == nil || serr == io.EOF {
				fail("subscribe/not-refused", "a stream with a poll before subscribing, a second subscription or no target at all ended with %v", serr)
				return
			}
		} else if serr != io.EOF {
			fail("subscribe/valid-stream-refused", "a valid stream ended with %v", serr)
			return
		}
		if seqKind == 3 || !ok {
			want = map[string]*gnmi.SubscribeRequest{}
			polls = 0
		}
		// exactly the named targets received exactly their entries
		var tnames []string
		for _, t := range targets {
			conn := conns[t]
			exp := want[t]
			if exp == nil {
				if len(conn.Subs) != 0 || conn.Polls != 0 {
					fail("subscribe/forwarded-to-unnamed-target", "target %s was not named but received %d subscriptions / %d polls", t, len(conn.Subs), conn.Polls)
					return
				}
				continue
			}
			tnames = append(tnames, t)
			c.Count("target_requests_compared", 1)
			if len(conn.Subs) != 1 {
				fail("subscribe/missing-or-duplicate", "target %s received %d subscription requests, expected 1", t, len(conn.Subs))
				return
			}
			if !proto.Equal(conn.Subs[0], exp) {
				fail("subscribe/entries-or-options-differ", "target %s received\n  %v\nthe reference split gives\n  %v", t, conn.Subs[0], exp)
				return
			}
			wantPolls := polls
			if t == lost {
				wantPolls = 0
			}
			if conn.Polls != wantPolls {
				fail("subscribe/poll-fanout", "target %s received %d polls, expected %d (target that lost its connection before the poll: %q)", t, conn.Polls, wantPolls, lost)
				return
			}
		}
		// relay: what a target sends is what the subscriber gets, verbatim
		sort.Strings(tnames)
		for k, t := range tnames {
			conn := conns[t]
			resp := &gnmi.SubscribeResponse{Response: &gnmi.SubscribeResponse_Update{Update: &gnmi.Notification{Timestamp: int64(1000*i + k),
				Prefix: &gnmi.Path{Target: t}, Update: []*gnmi.Update{{Path: refmodel.MustParse("/foo").ToGNMI(""), Val: refmodel.S(fmt.Sprintf("from-%s-%d", t, i)).ToGNMI()}}}}}
			before := len(st.sent)
			if err := conn.Handlers[0](resp); err != nil {
				fail("subscribe/relay-error", "relaying a response from %s failed: %v", t, err)
				return
			}
			c.Count("responses_relayed", 1)
			if len(st.sent) != before+1 || !proto.Equal(st.sent[before].(*gnmi.SubscribeResponse), resp) {
				fail("subscribe/relay-not-verbatim", "the response from %s was not relayed verbatim (sent %d messages)", t, len(st.sent)-before)
				return
			}
		}
		if lost != "" {
			w.Connect(lost)
		}
	}
	c.Class("streams")
}

func init() {
	fw.Register(&fw.Check{ID: "C19", Level: "exploration",
		Technique:   "runtime monitoring: PRNG subscription lists and message sequences through the real Subscribe handler with recording fake target clients and a fake subscriber stream; reference split, verbatim relay and poll fan-out oracles",
		Rule:        "each case = 40 streams; subscription lists of 1..8 entries over 1..4 targets, prefix absent / elems only / target / target+elems, all list and entry modes; sequences: subscribe, +poll(s), poll first, second subscribe; distinct_nontrivial = distinct (prefix kind, sequence kind, number of targets) shapes",
		Assumptions: []string{"target clients are fakes that record the SubscribeRequest and the response handler they are given (client.Query.SubReq / ProtoHandler)", "an entry that names no target in a request where other entries do is dropped silently by the code; the property does not speak about it and the reference does the same"},
		DistinctSet: "stream_shape", CaseTimeout: 300e9,
		Floors: map[string]int64{"streams": 3000, "target_requests_compared": 2000, "responses_relayed": 2000, "streams_that_must_be_refused": 800},
		Cases: func(tier string) int {
			if tier == "thorough" {
				return 5000
			}
			return 80
		},
		Run: func(c *fw.Case) { c19Run(c, 40) }})
}
