package props

import (
	"fmt"
	configapi "github.com/onosproject/onos-api/go/onos/config/v2"
	"os"
	"strings"
	"sync"
	"sync/atomic"
	"time"

	liberrors "github.com/onosproject/onos-lib-go/pkg/errors"
	"google.golang.org/grpc/codes"

	"verif/engine"
	"verif/fw"
	"verif/refmodel"
	"verif/world"
)

// s2Run executes one PRNG-generated history on the real controllers (engine S2) and reports the
// findings that concern the given property.
func s2Run(c *fw.Case, prop string, p *engine.Profile) *engine.Exec {
	return s2RunSteps(c, prop, p, nil)
}

var classOf = map[codes.Code]string{codes.Unknown: "UNKNOWN", codes.InvalidArgument: "INVALID", codes.NotFound: "NOT_FOUND", codes.AlreadyExists: "ALREADY_EXISTS",
	codes.Unauthenticated: "UNAUTHORIZED", codes.FailedPrecondition: "CONFLICT", codes.Unimplemented: "NOT_SUPPORTED", codes.Internal: "INTERNAL",
	codes.ResourceExhausted: "UNKNOWN", codes.Aborted: "UNKNOWN", codes.OutOfRange: "UNKNOWN", codes.DataLoss: "UNKNOWN"}

// s2RunSteps runs the given steps (or generates them from the profile when nil)
func s2RunSteps(c *fw.Case, prop string, p *engine.Profile, steps []engine.Step) *engine.Exec {
	opts := world.Options{Targets: p.Targets}
	w, err := world.New(opts)
	if err != nil {
		c.Inconclusive("world: " + err.Error())
		return nil
	}
	defer w.Close()
	r := &lockedRng{r: c.Rng.Fork("delay")}
	mode := c.Rng.Intn(3)
	preemptBudget := int32(5)
	if mode > 0 || p.PSlowPlugin > 0 || p.PStaleWriter > 0 || p.PPreempt > 0 {
		w.SetDelay(func(kind string) {
			if kind == "plugin.Validate" && p.PSlowPlugin > 0 && r.Intn(100) < p.PSlowPlugin {
				time.Sleep(time.Duration(5+r.Intn(35)) * time.Millisecond)
				return
			}
			if p.PPreempt > 0 && kind != "watch.deliver" && kind != "plugin.Validate" {
				// pre-emption at a store-call boundary: a controller task is held at one of its calls until the rest of the
				// system has completed 1..6 more writes (or 200 ms have passed - that bound only ends the hold, no verdict
				// depends on it); at most 5 holds per history
				if t := world.CurrentTask(); t != "" && !strings.HasPrefix(t, "handler:") && atomic.LoadInt32(&preemptBudget) > 0 && r.Intn(1000) < p.PPreempt {
					if atomic.AddInt32(&preemptBudget, -1) >= 0 {
						c.Count("controller_tasks_preempted_at_a_call_boundary", 1)
						c.Distinct("preempted_at", strings.SplitN(t, ":", 2)[0]+"/"+kind)
						start, need := w.Writes(), int64(1+r.Intn(6))
						for dl := time.Now().Add(200 * time.Millisecond); w.Writes() < start+need && time.Now().Before(dl); {
							time.Sleep(500 * time.Microsecond)
						}
						return
					}
				}
			}
			if kind == "cfg.UpdateStatus" && p.PStaleWriter > 0 {
				// a status writer (election, re-sync bookkeeping) that is pre-empted between its read and its write:
				// whatever the apply path wrote meanwhile must survive
				if t := world.CurrentTask(); (strings.HasPrefix(t, "mastership:") || strings.HasPrefix(t, "configuration:")) && r.Intn(100) < p.PStaleWriter {
					c.Count("status_writers_held_between_read_and_write", 1)
					time.Sleep(time.Duration(5+r.Intn(35)) * time.Millisecond)
					return
				}
			}
			if mode == 0 {
				return
			}
			if kind == "watch.deliver" {
				// one watcher's stream lags behind the others by 1..20 ms (3 % / 6 % of the deliveries)
				if r.Intn(1000) < 30*mode {
					c.Count("watch_deliveries_delayed", 1)
					time.Sleep(time.Duration(1+r.Intn(20)) * time.Millisecond)
				}
				return
			}
			// schedule perturbation at decorated calls: a short sleep with probability 10% / 20%
			x := r.Intn(1000)
			if x < 100*mode {
				time.Sleep(time.Duration(50+r.Intn(300)) * time.Microsecond)
			} else if x < 100*mode+8 {
				time.Sleep(time.Duration(3+r.Intn(25)) * time.Millisecond) // a rare long stall: reorders whole reconcile runs
			}
		})
	}
	if p.PStoreFault > 0 || p.PCreateFault > 0 {
		fr := c.Rng.Fork("storefault")
		var fmu sync.Mutex
		w.SetStoreFault(func(kind string) error {
			fmu.Lock()
			defer fmu.Unlock()
			if fr.Intn(1000) < p.PStoreFault || (kind == "prop.Create" && fr.Intn(100) < p.PCreateFault) {
				c.Count("store_faults_injected", 1)
				if kind == "prop.Create" {
					c.Count("proposal_create_faults_injected", 1)
				}
				return liberrors.NewUnavailable("injected transient store fault at " + kind)
			}
			return nil
		})
	}
	if steps == nil {
		steps = engine.GenScenario(c.Rng.Fork("scenario"), p, w.Schema)
	}
	e := &engine.Exec{C: c, W: w, P: p, Steps: steps, Opts: opts, IdleCheck: p.IdleCheck}
	if p.RejectCode != codes.OK {
		for _, d := range w.Devices {
			d.SetRejectCode(p.RejectCode)
		}
		e.RejectClass = classOf[p.RejectCode]
	}
	e.RunSteps()
	e.Settle(8*time.Second, 90*time.Second)
	if c.Violated() {
		return e
	}
	j := e.Judge()
	e.FixedPoint(j)
	e.CancelAll()
	s2Report(c, prop, e, j)
	if e.Crashes > 0 {
		c.Count("crashes_injected", int64(e.Crashes))
		c.Count("executions_with_a_process_kill", 1)
	}
	return e
}


// s2ElectionSpansCommitAndApply is a directed schedule for the stale-writer class that random perturbation reaches too
// rarely: the mastership controller is pre-empted between reading a configuration and listing the target's relations;
// meanwhile a Set is committed and applied over the old master connection, and the connection is replaced. When the
// controller resumes it elects the new master and writes the configuration it read before the commit and the apply:
// nothing of what they wrote may be lost (stored configuration, applied values and - after the re-sync of the new
// term - the device must hold the second Set). Everything is judged by the ordinary oracles.
func s2ElectionSpansCommitAndApply(c *fw.Case, prop string, deleteVariant bool) *engine.Exec {
	p := &engine.Profile{Targets: []string{"t1"}}
	opts := world.Options{Targets: p.Targets}
	w, err := world.New(opts)
	if err != nil {
		c.Inconclusive("world: " + err.Error())
		return nil
	}
	defer w.Close()
	e := &engine.Exec{C: c, W: w, P: p, Opts: opts}
	var armed, holding int32
	held := make(chan struct{})
	release := make(chan struct{})
	w.SetDelay(func(kind string) {
		if kind == "topo.List" && strings.HasPrefix(world.CurrentTask(), "mastership:") && atomic.CompareAndSwapInt32(&armed, 1, 0) {
			atomic.StoreInt32(&holding, 1)
			close(held)
			select {
			case <-release:
			case <-time.After(20 * time.Second):
			}
		}
	})
	wait := func(call *engine.Call, d time.Duration) bool {
		select {
		case <-call.Done():
			return true
		case <-time.After(d):
			return false
		}
	}
	script := []string{}
	say := func(f string, a ...interface{}) { script = append(script, fmt.Sprintf(f, a...)) }
	connA := w.Connect("t1")
	say("CONNECT t1 -> %s", connA)
	c1 := e.IssueSet([]refmodel.Op{up("t1", "/foo", "v1"), up("t1", "/a/b", "keep")}, true)
	if !wait(c1, 30*time.Second) {
		c.Inconclusive("the first Set was not answered")
		return nil
	}
	say("%s set(sync) /foo=v1 /a/b=keep: applied", c1.Name())
	atomic.StoreInt32(&armed, 1)
	ops := []refmodel.Op{up("t1", "/foo", "v2"), up("t1", "/bar", "new")}
	if deleteVariant {
		ops = []refmodel.Op{del("t1", "/a"), up("t1", "/bar", "new")}
	}
	c2 := e.IssueSet(ops, true)
	say("%s set(sync) %v issued with the mastership controller armed to be held at its next topo.List", c2.Name(), ops)
	select {
	case <-held:
		say("mastership controller held between its read of the configuration and its listing of the relations")
	case <-time.After(10 * time.Second):
		// no mastership reconcile happened to be scheduled: nothing directed can be observed, the history is judged as it is
		say("no mastership reconcile was scheduled while the second Set ran")
	}
	if !wait(c2, 30*time.Second) {
		c.Inconclusive("the second Set was not answered")
		return nil
	}
	say("second Set applied over %s", connA)
	if atomic.LoadInt32(&holding) == 1 {
		w.Disconnect("t1")
		connB := w.Connect("t1")
		say("REPLACE-CONN t1 -> %s", connB)
		for dl := time.Now().Add(10 * time.Second); time.Now().Before(dl); {
			if rel := w.Topo.Relations("t1"); len(rel) == 1 && rel[0] == connB {
				break
			}
			time.Sleep(2 * time.Millisecond)
		}
		close(release)
		say("mastership controller released: it sees only the new relation and elects it")
		c.Count("directed_elections_spanning_a_commit_and_an_apply", 1)
	}
	e.Script = append(e.Script, script...)
	e.Settle(8*time.Second, 90*time.Second)
	j := e.Judge()
	e.FixedPoint(j)
	e.CancelAll()
	s2Report(c, prop, e, j)
	c.Class(fmt.Sprintf("directed:election-spans-commit-and-apply delete=%v", deleteVariant))
	c.Sample(map[string]interface{}{"script": e.Script, "goal_reached": e.GoalReached})
	return e
}

func s2Report(c *fw.Case, prop string, e *engine.Exec, j *engine.Judgement) {
	// shape class and coverage counters
	var kinds []string
	seen := map[string]bool{}
	nSets, nRb, nMulti, nDel, nSer := 0, 0, 0, 0, 0
	for _, s := range e.Steps {
		k := s.Kind
		if s.Kind == "set" {
			nSets++
			if len(tset(s)) > 1 {
				nMulti++
				k = "set-multi"
			}
			for _, o := range s.Ops {
				if o.Del {
					nDel++
					k += "+del"
					break
				}
			}
			if s.Sync {
				k += "+sync"
			}
			if s.NoWait {
				k += "+nowait"
			}
			if s.Serializable {
				k += "+serializable"
				nSer++
			}
		}
		if s.Kind == "rollback" {
			nRb++
			k = "rollback-" + s.RbMode
		}
		if !seen[k] {
			seen[k] = true
			kinds = append(kinds, k)
		}
	}
	outc := map[string]int{}
	if j != nil {
		for _, o := range j.Outs {
			switch {
			case !o.Committed:
				outc["rejected:"+strings.Join(o.Failure, ",")]++
			case !o.Applied:
				outc["apply-failed"]++
			default:
				outc["applied"]++
			}
		}
	}
	var oc []string
	for k := range outc {
		oc = append(oc, k)
	}
	c.Class(fmt.Sprintf("%v|%v", sortStrings(kinds), sortStrings(oc)))
	c.Count("executions", 1)
	if len(j.Outs) == 0 {
		c.Trivial()
	}
	c.Count("client_calls", int64(len(e.Calls)))
	c.Count("transactions_logged", int64(len(j.Outs)))
	c.Count("sets", int64(nSets))
	c.Count("rollbacks", int64(nRb))
	c.Count("multi_target_sets", int64(nMulti))
	c.Count("serializable_sets", int64(nSer))
	c.Count("store_and_device_events", int64(len(e.W.Events())))
	if e.GoalReached {
		c.Count("executions_reaching_final_state", 1)
	}
	for k, n := range outc {
		c.Count("tx_outcome_"+strings.SplitN(k, ":", 2)[0], int64(n))
	}
	c.Distinct("state", engine.StateString(j.State))
	c.Distinct("schedule", scheduleFingerprint(e))
	if c.Index%40 == 0 || len(j.Findings) > 0 {
		c.Sample(map[string]interface{}{"script": e.Script, "final_state": strings.Split(engine.StateString(j.State), ";"), "goal_reached": e.GoalReached})
	}
	if os.Getenv("VERIF_DUMP") != "" {
		dumpWorld(c, e) // development aid: keep the event trace of every case
	}
	for _, f := range j.Findings {
		for _, p := range f.Props {
			if p == prop || prop == "*" {
				dumpWorld(c, e)
				c.Violate(f.Oracle, f.Key, f.Msg, nil)
				break
			}
		}
	}
}

func tset(s engine.Step) map[string]bool {
	m := map[string]bool{}
	for _, o := range s.Ops {
		m[o.Target] = true
	}
	return m
}

func sortStrings(xs []string) []string {
	out := append([]string(nil), xs...)
	for i := range out {
		for k := i + 1; k < len(out); k++ {
			if out[k] < out[i] {
				out[i], out[k] = out[k], out[i]
			}
		}
	}
	return out
}

// scheduleFingerprint hashes the order of writes by task kind
func scheduleFingerprint(e *engine.Exec) string {
	var b strings.Builder
	for _, ev := range e.W.Events() {
		if ev.OK && (strings.HasPrefix(ev.Kind, "cfg.") || strings.HasPrefix(ev.Kind, "prop.") || strings.HasPrefix(ev.Kind, "tx.") || ev.Kind == "dev.Set") {
			b.WriteString(ev.Kind[:1])
			b.WriteString(ev.Task)
			b.WriteByte(';')
		}
	}
	return fmt.Sprintf("%x", fw.Derive(0, b.String()))
}

var dumped = map[*fw.Case]bool{}

// dumpWorld writes the event trace of an execution into the case trace (for replay files)
func dumpWorld(c *fw.Case, e *engine.Exec) {
	if dumped[c] {
		return
	}
	dumped[c] = true
	for _, ev := range e.W.Events() {
		line := fmt.Sprintf("#%d +%dms inc%d %-22s %-18s %s ok=%v", ev.Seq, ev.AtMs, ev.Inc, ev.Task, ev.Kind, ev.Target, ev.OK)
		switch {
		case ev.Cfg != nil:
			s := ev.Cfg.Status
			line += fmt.Sprintf(" v%d idx=%d p/c/a=%d/%d/%d %s term=%d/%d master=%q values=%s applied=%s", ev.Cfg.Version, ev.Cfg.Index, s.Proposed.Index, s.Committed.Index, s.Applied.Index, s.State,
				s.Mastership.Term, s.Applied.Mastership.Term, s.Mastership.Master, pvs(ev.Cfg.Values), pvs(s.Applied.Values))
		case ev.Prop != nil:
			line += fmt.Sprintf(" %s v%d %s", ev.Prop.ID, ev.Prop.Version, engine.PhaseString(ev.Prop))
		case ev.Tx != nil:
			line += fmt.Sprintf(" tx%d v%d %s failure=%v", ev.Tx.Index, ev.Tx.Version, ev.Tx.Status.State, ev.Tx.Status.Failure)
		case ev.Dev != nil:
			line += " " + ev.Dev.String()
		case ev.Doc != nil:
			line += fmt.Sprintf(" valid=%v %s leaves=%s", ev.Doc.Valid, ev.Doc.Why, ev.Doc.Leaves)
		}
		if ev.Err != "" {
			line += " err=" + ev.Err
		}
		if ev.Note != "" {
			line += " " + ev.Note
		}
		c.Tracef("%s", line)
	}
	for t, d := range e.W.Devices {
		c.Tracef("device %s holds %s", t, d.Snapshot())
	}
}

func pvs(m map[string]*configapi.PathValue) string {
	if m == nil {
		return "nil"
	}
	var ks []string
	for k, v := range m {
		s := fmt.Sprintf("%s@%d", k, v.Index)
		if v.Deleted {
			s = "-" + s
		} else {
			s += "=" + v.Value.ValueToString()
		}
		ks = append(ks, s)
	}
	return fmt.Sprint(sortStrings(ks))
}

func init() {
	rich := &engine.Profile{Targets: []string{"t1", "t2"}, MinOps: 5, MaxOps: 12, PMulti: 35, PPoison: 12, PEq: 10, PDevReject: 8, PDelete: 30,
		PRollback: 15, PEnv: 25, PNoWait: 35, PSync: 25, PStartOffline: 25, PDevFault: 10, Paths: "rich"}
	fw.Register(&fw.Check{ID: "S2RICH", Level: "exploration", Cases: func(tier string) int {
		if tier == "thorough" {
			return 4000
		}
		return 200
	}, Run: func(c *fw.Case) {
		w := c
		_ = w
		e := s2RunAll(c, rich)
		_ = e
	}, Rule: "development check: all oracles"})
}

// s2RunAll reports every finding regardless of property (development aid)
func s2RunAll(c *fw.Case, p *engine.Profile) *engine.Exec {
	return s2Run(c, "*", p)
}

// lockedRng is a PRNG stream shared by the goroutines of the system under test (delay injection)
type lockedRng struct {
	mu sync.Mutex
	r  *fw.Rng
}

func (l *lockedRng) Intn(n int) int {
	l.mu.Lock()
	defer l.mu.Unlock()
	return l.r.Intn(n)
}
