package props

import (
	"context"
	"fmt"
	"sort"
	"sync"
	"sync/atomic"
	"time"

	"github.com/anishathalye/porcupine"
	"github.com/atomix/go-sdk/pkg/test"
	configapi "github.com/onosproject/onos-api/go/onos/config/v2"
	configapiv3 "github.com/onosproject/onos-api/go/onos/config/v3"
	cfgv2 "github.com/onosproject/onos-config/pkg/store/v2/configuration"
	propv2 "github.com/onosproject/onos-config/pkg/store/v2/proposal"
	txv2 "github.com/onosproject/onos-config/pkg/store/v2/transaction"
	cfgv3 "github.com/onosproject/onos-config/pkg/store/v3/configuration"
	txv3 "github.com/onosproject/onos-config/pkg/store/v3/transaction"
	"github.com/onosproject/onos-lib-go/pkg/errors"

	"verif/engine"
	"verif/fw"
)

// rec is a client's copy of a record: the store object plus what the oracle needs
type rec struct {
	obj interface{}
	ver uint64
	tag uint64
	idx uint64
}

// kv adapts one store to the generic workload: records are versioned registers holding a unique tag
type kv interface {
	name() string
	keys() []string
	create(ctx context.Context, key string, tag uint64) (*rec, error)
	get(ctx context.Context, key string) (*rec, error)
	update(ctx context.Context, r *rec, tag uint64, status bool) (*rec, error)
	watch(ctx context.Context, key string, replay bool, sink func(key string, ver uint64)) error
	perWatchStream() bool // every Watch opens its own Atomix event stream (proposal store)
}

// kvValues is implemented by the stores that keep part of a record (the path values) in a second Atomix
// primitive: valueTag reads the tag that the last stored full update left there
type kvValues interface {
	valueTag(ctx context.Context, key string) (uint64, error)
}

// ---- v2 transaction store
type kvTx struct {
	s   txv2.Store
	ids []string
}

func (k *kvTx) name() string         { return "v2/transaction" }
func (k *kvTx) keys() []string       { return k.ids }
func (k *kvTx) perWatchStream() bool { return false }
func (k *kvTx) create(ctx context.Context, key string, tag uint64) (*rec, error) {
	t := &configapi.Transaction{ID: configapi.TransactionID(key), Username: fmt.Sprint(tag), Details: &configapi.Transaction_Change{Change: &configapi.ChangeTransaction{}}}
	if err := k.s.Create(ctx, t); err != nil {
		return nil, err
	}
	return &rec{obj: t, ver: t.Version, tag: tag, idx: uint64(t.Index)}, nil
}
func (k *kvTx) get(ctx context.Context, key string) (*rec, error) {
	t, err := k.s.Get(ctx, configapi.TransactionID(key))
	if err != nil {
		return nil, err
	}
	var tag uint64
	fmt.Sscan(t.Username, &tag)
	return &rec{obj: t, ver: t.Version, tag: tag, idx: uint64(t.Index)}, nil
}
func (k *kvTx) update(ctx context.Context, r *rec, tag uint64, status bool) (*rec, error) {
	b, _ := r.obj.(*configapi.Transaction).Marshal()
	t := &configapi.Transaction{}
	_ = t.Unmarshal(b)
	t.Version, t.Index = r.ver, configapi.Index(r.idx)
	t.Username = fmt.Sprint(tag)
	var err error
	if status {
		err = k.s.UpdateStatus(ctx, t)
	} else {
		err = k.s.Update(ctx, t)
	}
	if err != nil {
		return nil, err
	}
	return &rec{obj: t, ver: t.Version, tag: tag, idx: uint64(t.Index)}, nil
}
func (k *kvTx) watch(ctx context.Context, key string, replay bool, sink func(string, uint64)) error {
	ch := make(chan configapi.TransactionEvent)
	var opts []txv2.WatchOption
	if replay {
		opts = append(opts, txv2.WithReplay())
	}
	if key != "" {
		opts = append(opts, txv2.WithTransactionID(configapi.TransactionID(key)))
	}
	if err := k.s.Watch(ctx, ch, opts...); err != nil {
		return err
	}
	go func() {
		for ev := range ch {
			sink(string(ev.Transaction.ID), ev.Transaction.Version)
		}
	}()
	return nil
}

// ---- v2 proposal store
type kvProp struct {
	s   propv2.Store
	ids []string
}

func (k *kvProp) name() string         { return "v2/proposal" }
func (k *kvProp) keys() []string       { return k.ids }
func (k *kvProp) perWatchStream() bool { return true }
func (k *kvProp) create(ctx context.Context, key string, tag uint64) (*rec, error) {
	p := &configapi.Proposal{ID: configapi.ProposalID(key), TargetID: "t", TransactionIndex: 1, Details: &configapi.Proposal_Change{Change: &configapi.ChangeProposal{}}}
	p.Status.RollbackIndex = configapi.Index(tag)
	if err := k.s.Create(ctx, p); err != nil {
		return nil, err
	}
	return &rec{obj: p, ver: p.Version, tag: tag}, nil
}
func (k *kvProp) get(ctx context.Context, key string) (*rec, error) {
	p, err := k.s.Get(ctx, configapi.ProposalID(key))
	if err != nil {
		return nil, err
	}
	return &rec{obj: p, ver: p.Version, tag: uint64(p.Status.RollbackIndex)}, nil
}
func (k *kvProp) update(ctx context.Context, r *rec, tag uint64, status bool) (*rec, error) {
	b, _ := r.obj.(*configapi.Proposal).Marshal()
	p := &configapi.Proposal{}
	_ = p.Unmarshal(b)
	p.Version = r.ver
	p.Status.RollbackIndex = configapi.Index(tag)
	var err error
	if status {
		err = k.s.UpdateStatus(ctx, p)
	} else {
		err = k.s.Update(ctx, p)
	}
	if err != nil {
		return nil, err
	}
	return &rec{obj: p, ver: p.Version, tag: tag}, nil
}
func (k *kvProp) watch(ctx context.Context, key string, replay bool, sink func(string, uint64)) error {
	ch := make(chan configapi.ProposalEvent)
	var opts []propv2.WatchOption
	if replay {
		opts = append(opts, propv2.WithReplay())
	}
	if key != "" {
		opts = append(opts, propv2.WithProposalID(configapi.ProposalID(key)))
	}
	if err := k.s.Watch(ctx, ch, opts...); err != nil {
		return err
	}
	go func() {
		for ev := range ch {
			sink(string(ev.Proposal.ID), ev.Proposal.Version)
		}
	}()
	return nil
}

// ---- v2 configuration store
type kvCfg struct {
	s   cfgv2.Store
	ids []string
}

func (k *kvCfg) name() string         { return "v2/configuration" }
func (k *kvCfg) keys() []string       { return k.ids }
func (k *kvCfg) perWatchStream() bool { return false }
func (k *kvCfg) create(ctx context.Context, key string, tag uint64) (*rec, error) {
	c := &configapi.Configuration{ID: configapi.ConfigurationID(key), TargetID: configapi.TargetID(key)}
	c.Status.Proposed.Index = configapi.Index(tag)
	if err := k.s.Create(ctx, c); err != nil {
		return nil, err
	}
	return &rec{obj: c, ver: c.Version, tag: tag}, nil
}
func (k *kvCfg) get(ctx context.Context, key string) (*rec, error) {
	c, err := k.s.Get(ctx, configapi.ConfigurationID(key))
	if err != nil {
		return nil, err
	}
	return &rec{obj: c, ver: c.Version, tag: uint64(c.Status.Proposed.Index)}, nil
}
func (k *kvCfg) valueTag(ctx context.Context, key string) (uint64, error) {
	c, err := k.s.Get(ctx, configapi.ConfigurationID(key))
	if err != nil {
		return 0, err
	}
	if pv := c.Values["/foo"]; pv != nil {
		return uint64(pv.Index), nil
	}
	return 0, nil
}
func (k *kvCfg) update(ctx context.Context, r *rec, tag uint64, status bool) (*rec, error) {
	b, _ := r.obj.(*configapi.Configuration).Marshal()
	c := &configapi.Configuration{}
	_ = c.Unmarshal(b)
	c.Version = r.ver
	c.Status.Proposed.Index = configapi.Index(tag)
	var err error
	if status {
		err = k.s.UpdateStatus(ctx, c)
	} else {
		c.Values = map[string]*configapi.PathValue{"/foo": {Path: "/foo", Index: configapi.Index(tag), Value: *configapi.NewTypedValueString(fmt.Sprint(tag))}}
		err = k.s.Update(ctx, c)
	}
	if err != nil {
		return nil, err
	}
	return &rec{obj: c, ver: c.Version, tag: tag}, nil
}
func (k *kvCfg) watch(ctx context.Context, key string, replay bool, sink func(string, uint64)) error {
	ch := make(chan configapi.ConfigurationEvent)
	var opts []cfgv2.WatchOption
	if replay {
		opts = append(opts, cfgv2.WithReplay())
	}
	if key != "" {
		opts = append(opts, cfgv2.WithConfigurationID(configapi.ConfigurationID(key)))
	}
	if err := k.s.Watch(ctx, ch, opts...); err != nil {
		return err
	}
	go func() {
		for ev := range ch {
			sink(string(ev.Configuration.ID), ev.Configuration.Version)
		}
	}()
	return nil
}

// ---- v3 configuration store
type kvCfg3 struct {
	s   cfgv3.Store
	ids []string
}

func cfg3ID(key string) configapiv3.ConfigurationID {
	return configapiv3.ConfigurationID{Target: configapiv3.Target{ID: configapiv3.TargetID(key), Type: "synth", Version: "1.0.0"}}
}
func (k *kvCfg3) name() string         { return "v3/configuration" }
func (k *kvCfg3) keys() []string       { return k.ids }
func (k *kvCfg3) perWatchStream() bool { return false }
func (k *kvCfg3) create(ctx context.Context, key string, tag uint64) (*rec, error) {
	c := &configapiv3.Configuration{ID: cfg3ID(key)}
	c.Committed.Ordinal = configapiv3.Ordinal(tag)
	if err := k.s.Create(ctx, c); err != nil {
		return nil, err
	}
	return &rec{obj: c, ver: c.Version, tag: tag}, nil
}
func (k *kvCfg3) get(ctx context.Context, key string) (*rec, error) {
	c, err := k.s.Get(ctx, cfg3ID(key))
	if err != nil {
		return nil, err
	}
	return &rec{obj: c, ver: c.Version, tag: uint64(c.Committed.Ordinal)}, nil
}
func (k *kvCfg3) valueTag(ctx context.Context, key string) (uint64, error) {
	c, err := k.s.Get(ctx, cfg3ID(key))
	if err != nil {
		return 0, err
	}
	if pv, ok := c.Committed.Values["/foo"]; ok {
		return uint64(pv.Index), nil
	}
	return 0, nil
}
func (k *kvCfg3) update(ctx context.Context, r *rec, tag uint64, status bool) (*rec, error) {
	b, _ := r.obj.(*configapiv3.Configuration).Marshal()
	c := &configapiv3.Configuration{}
	_ = c.Unmarshal(b)
	c.Version = r.ver
	c.Committed.Ordinal = configapiv3.Ordinal(tag)
	var err error
	if status {
		err = k.s.UpdateStatus(ctx, c)
	} else {
		c.Committed.Values = map[string]configapiv3.PathValue{"/foo": {Path: "/foo", Index: configapiv3.Index(tag), Value: configapiv3.TypedValue{Bytes: []byte(fmt.Sprint(tag)), Type: configapiv3.ValueType_STRING}}}
		err = k.s.Update(ctx, c)
	}
	if err != nil {
		return nil, err
	}
	return &rec{obj: c, ver: c.Version, tag: tag}, nil
}
func (k *kvCfg3) watch(ctx context.Context, key string, replay bool, sink func(string, uint64)) error {
	ch := make(chan configapiv3.ConfigurationEvent)
	var opts []cfgv3.WatchOption
	if replay {
		opts = append(opts, cfgv3.WithReplay())
	}
	if key != "" {
		opts = append(opts, cfgv3.WithConfigurationID(cfg3ID(key)))
	}
	if err := k.s.Watch(ctx, ch, opts...); err != nil {
		return err
	}
	go func() {
		for ev := range ch {
			sink(string(ev.Configuration.ID.Target.ID), ev.Configuration.Version)
		}
	}()
	return nil
}

// ---- v3 transaction store: one log per target; the record of a key is the first entry of the log of a target
// named after the key (a fixed entry key makes a second Create of the same record fail with AlreadyExists)
type kvTx3 struct {
	s   txv3.Store
	ids []string
}

func tx3Target(key string) configapiv3.Target {
	return configapiv3.Target{ID: configapiv3.TargetID(key), Type: "synth", Version: "1.0.0"}
}
func tx3Tag(t *configapiv3.Transaction) uint64 { return uint64(t.Values["/foo"].Index) }
func tx3SetTag(t *configapiv3.Transaction, tag uint64) {
	t.Values = map[string]configapiv3.PathValue{"/foo": {Path: "/foo", Index: configapiv3.Index(tag)}}
}
func (k *kvTx3) name() string         { return "v3/transaction" }
func (k *kvTx3) keys() []string       { return k.ids }
func (k *kvTx3) perWatchStream() bool { return false }
func (k *kvTx3) create(ctx context.Context, key string, tag uint64) (*rec, error) {
	t := &configapiv3.Transaction{ID: configapiv3.TransactionID{Target: tx3Target(key)}}
	t.Key = "the-record"
	tx3SetTag(t, tag)
	if err := k.s.Create(ctx, t); err != nil {
		return nil, err
	}
	return &rec{obj: t, ver: t.Version, tag: tag, idx: uint64(t.ID.Index)}, nil
}
func (k *kvTx3) get(ctx context.Context, key string) (*rec, error) {
	t, err := k.s.Get(ctx, configapiv3.TransactionID{Target: tx3Target(key), Index: 1})
	if err != nil {
		return nil, err
	}
	return &rec{obj: t, ver: t.Version, tag: tx3Tag(t), idx: uint64(t.ID.Index)}, nil
}
func (k *kvTx3) update(ctx context.Context, r *rec, tag uint64, status bool) (*rec, error) {
	b, _ := r.obj.(*configapiv3.Transaction).Marshal()
	t := &configapiv3.Transaction{}
	_ = t.Unmarshal(b)
	t.Version = r.ver
	tx3SetTag(t, tag)
	var err error
	if status {
		err = k.s.UpdateStatus(ctx, t)
	} else {
		err = k.s.Update(ctx, t)
	}
	if err != nil {
		return nil, err
	}
	return &rec{obj: t, ver: t.Version, tag: tag, idx: uint64(t.ID.Index)}, nil
}
func (k *kvTx3) watch(ctx context.Context, key string, replay bool, sink func(string, uint64)) error {
	ch := make(chan configapiv3.TransactionEvent)
	var opts []txv3.WatchOption
	if replay {
		opts = append(opts, txv3.WithReplay())
	}
	if key != "" {
		opts = append(opts, txv3.WithTransactionID(configapiv3.TransactionID{Target: tx3Target(key), Index: 1}))
	}
	if err := k.s.Watch(ctx, ch, opts...); err != nil {
		return err
	}
	go func() {
		for ev := range ch {
			sink(string(ev.Transaction.ID.Target.ID), ev.Transaction.Version)
		}
	}()
	return nil
}

// ---------------------------------------------------------------- history + porcupine model

type c15In struct {
	Kind    string // create get update
	Key     string
	ReadVer uint64
	Tag     uint64
	Full    bool // update: Update (true) or UpdateStatus (false)
}
type c15Out struct {
	OK       bool
	Conflict bool // AlreadyExists / Conflict / NotFound
	Ver      uint64
	Tag      uint64
	Unknown  bool // the call failed with another error: it may or may not have taken effect
}
type c15State struct {
	Exists bool
	Ver    uint64
	Tag    uint64
}

var c15Model = porcupine.Model{
	Partition: func(h []porcupine.Operation) [][]porcupine.Operation {
		by := map[string][]porcupine.Operation{}
		var ks []string
		for _, o := range h {
			k := o.Input.(c15In).Key
			if _, ok := by[k]; !ok {
				ks = append(ks, k)
			}
			by[k] = append(by[k], o)
		}
		sort.Strings(ks)
		var out [][]porcupine.Operation
		for _, k := range ks {
			out = append(out, by[k])
		}
		return out
	},
	Init: func() interface{} { return c15State{} },
	Step: func(st, in, out interface{}) (bool, interface{}) {
		s, i, o := st.(c15State), in.(c15In), out.(c15Out)
		switch i.Kind {
		case "create":
			if o.OK {
				return !s.Exists && o.Ver > s.Ver, c15State{true, o.Ver, i.Tag}
			}
			return s.Exists, s
		case "get":
			if !o.OK {
				return !s.Exists, s
			}
			return s.Exists && s.Ver == o.Ver && s.Tag == o.Tag, s
		case "update":
			if o.OK {
				// two writers that read the same version cannot both get here: the second sees s.Ver != ReadVer
				return s.Exists && s.Ver == i.ReadVer && o.Ver > s.Ver, c15State{true, o.Ver, i.Tag}
			}
			// a refused update leaves the state as it is. The property does not promise that an update from
			// the current version succeeds (the configuration stores refuse some: their path-value
			// transaction can conflict with a stale writer's), so a refusal is always legal
			return true, s
		}
		return false, s
	},
	Equal: func(a, b interface{}) bool { return a == b },
	DescribeOperation: func(in, out interface{}) string {
		return fmt.Sprintf("%+v -> %+v", in, out)
	},
}

type c15Watcher struct {
	key     string
	replay  bool
	racing  bool
	started int64 // logical time of subscription
	mu      sync.Mutex
	seen    map[string]uint64
	cancel  context.CancelFunc
	abandon atomic.Bool
}

func c15Stores(kind string, client *test.Client, keys []string) (kv, error) {
	switch kind {
	case "v2/transaction":
		s, err := txv2.NewAtomixStore(client)
		return &kvTx{s, keys}, err
	case "v2/proposal":
		s, err := propv2.NewAtomixStore(client)
		return &kvProp{s, keys}, err
	case "v2/configuration":
		s, err := cfgv2.NewAtomixStore(client)
		return &kvCfg{s, keys}, err
	case "v3/configuration":
		s, err := cfgv3.NewAtomixStore(client)
		return &kvCfg3{s, keys}, err
	case "v3/transaction":
		s, err := txv3.NewAtomixStore(client)
		return &kvTx3{s, keys}, err
	}
	return nil, fmt.Errorf("unknown store %s", kind)
}

func c15Run(c *fw.Case, kind string) {
	client := test.NewClient()
	defer client.Close()
	r := c.Rng.Fork("c15")
	nKeys := 3 + r.Intn(3)
	var keys []string
	for i := 0; i < nKeys; i++ {
		keys = append(keys, fmt.Sprintf("k%d-%d", c.Index, i))
	}
	// several store objects on one cluster (as several processes would have)
	nStores := 2 + r.Intn(2)
	var stores []kv
	for i := 0; i < nStores; i++ {
		s, err := c15Stores(kind, client, keys)
		if err != nil {
			c.Inconclusive(err.Error())
			return
		}
		stores = append(stores, s)
	}
	var clock int64
	tick := func() int64 { return atomic.AddInt64(&clock, 1) }
	var tagSeq uint64
	var hmu sync.Mutex
	var history []porcupine.Operation
	var unknownOps int64
	finalVer := map[string]uint64{}
	lastWriteAt := map[string]int64{}
	record := func(client int, in c15In, call int64, out c15Out) {
		ret := tick()
		hmu.Lock()
		if !out.Unknown {
			history = append(history, porcupine.Operation{ClientId: client, Input: in, Call: call, Output: out, Return: ret})
		} else {
			unknownOps++
		}
		if out.OK && in.Kind != "get" && out.Ver > finalVer[in.Key] {
			finalVer[in.Key] = out.Ver
			lastWriteAt[in.Key] = ret
		}
		hmu.Unlock()
	}
	classify := func(err error) c15Out {
		if err == nil {
			return c15Out{OK: true}
		}
		if errors.IsConflict(err) || errors.IsAlreadyExists(err) || errors.IsNotFound(err) {
			return c15Out{Conflict: true}
		}
		return c15Out{Unknown: true}
	}
	// watchers: early (quiescent subscribe) and racing
	var watchers []*c15Watcher
	startWatcher := func(s kv, key string, replay, racing bool) *c15Watcher {
		ctx, cancel := context.WithCancel(context.Background())
		w := &c15Watcher{key: key, replay: replay, racing: racing, seen: map[string]uint64{}, cancel: cancel}
		err := s.watch(ctx, key, replay, func(k string, v uint64) {
			if w.abandon.Load() {
				select {} // an abandoned consumer stops reading
			}
			w.mu.Lock()
			if v > w.seen[k] {
				w.seen[k] = v
			}
			w.mu.Unlock()
		})
		if err != nil {
			c.Inconclusive("watch: " + err.Error())
		}
		// a watcher without replay is entitled to what is written after Watch has returned
		w.started = tick()
		watchers = append(watchers, w)
		return w
	}
	for i, s := range stores {
		startWatcher(s, "", i%2 == 0, false)
		startWatcher(s, keys[i%len(keys)], true, false)
	}
	time.Sleep(150 * time.Millisecond) // let the subscriptions register on every partition (see DESIGN: Atomix client)
	nClients := 4 + r.Intn(4)
	opsPer := 40 + r.Intn(30)
	var wg sync.WaitGroup
	for cl := 0; cl < nClients; cl++ {
		wg.Add(1)
		cr := r.Fork(fmt.Sprint("client", cl))
		go func(cl int) {
			defer wg.Done()
			s := stores[cl%len(stores)]
			last := map[string]*rec{}
			ctx := context.Background()
			for i := 0; i < opsPer; i++ {
				key := keys[cr.Intn(len(keys))]
				if cr.Chance(1, 12) {
					time.Sleep(time.Duration(cr.Intn(300)) * time.Microsecond)
				}
				switch x := cr.Intn(10); {
				case x < 2 || last[key] == nil && x < 4:
					tag := atomic.AddUint64(&tagSeq, 1)
					in := c15In{Kind: "create", Key: key, Tag: tag}
					call := tick()
					rc, err := s.create(ctx, key, tag)
					out := classify(err)
					if rc != nil {
						out.Ver, out.Tag = rc.ver, tag
						last[key] = rc
					}
					record(cl, in, call, out)
				case x < 5 || last[key] == nil:
					// (a client that has no copy of the record yet reads it: every client must become a writer
					// of every key, or there is no contention on the version check)
					in := c15In{Kind: "get", Key: key}
					call := tick()
					rc, err := s.get(ctx, key)
					out := classify(err)
					if rc != nil {
						out.Ver, out.Tag = rc.ver, rc.tag
						last[key] = rc
					}
					record(cl, in, call, out)
				default:
					tag := atomic.AddUint64(&tagSeq, 1)
					statusOnly := cr.Chance(1, 2)
					in := c15In{Kind: "update", Key: key, ReadVer: last[key].ver, Tag: tag, Full: !statusOnly}
					call := tick()
					rc, err := s.update(ctx, last[key], tag, statusOnly)
					out := classify(err)
					if rc != nil {
						out.Ver, out.Tag = rc.ver, tag
						last[key] = rc
					}
					record(cl, in, call, out)
				}
			}
		}(cl)
	}
	// racing watchers, cancellations and abandoned consumers while the writers run (in a goroutine of its own: a store
	// that a cancelled watch has wedged blocks Watch as well, and that must end as a verdict, not as a hung check)
	wg.Add(1)
	go func() {
		defer wg.Done()
		for i := 0; i < 4; i++ {
			time.Sleep(time.Duration(1+r.Intn(4)) * time.Millisecond)
			s := stores[r.Intn(len(stores))]
			key := ""
			if r.Chance(1, 2) {
				key = keys[r.Intn(len(keys))]
			}
			w := startWatcher(s, key, r.Chance(2, 3), true)
			d := time.Duration(1+r.Intn(3)) * time.Millisecond
			if r.Chance(1, 3) {
				// a consumer that stops reading and then cancels (what a Set handler does when it has its answer)
				w.abandon.Store(true)
				go func() { time.Sleep(d); w.cancel() }()
				c.Count("abandoned_watchers", 1)
			} else if r.Chance(1, 4) {
				go func() { time.Sleep(d); w.cancel() }()
				w.abandon.Store(true)
				c.Count("cancelled_watchers", 1)
			}
		}
	}()
	// wait for the clients. Calls that never return are a violation of their own ("cancelling a watch never disturbs
	// the store"); they are told from a starved machine by two observations: no call of any client has returned for
	// 60 s, and a fresh store object on the same cluster answers a read promptly
	finished := make(chan struct{})
	go func() { wg.Wait(); close(finished) }()
	lastDone, quietSince := int64(-1), time.Now()
waiting:
	for {
		select {
		case <-finished:
			break waiting
		case <-time.After(500 * time.Millisecond):
		}
		hmu.Lock()
		n := int64(len(history)) + unknownOps
		hmu.Unlock()
		if n != lastDone {
			lastDone, quietSince = n, time.Now()
			continue
		}
		if time.Since(quietSince) < 60*time.Second {
			continue
		}
		probe := make(chan error, 1)
		go func() {
			fresh, err := c15Stores(kind, client, keys)
			if err == nil {
				_, err = fresh.get(context.Background(), keys[0])
				if errors.IsNotFound(err) {
					err = nil
				}
			}
			probe <- err
		}()
		select {
		case err := <-probe:
			if err == nil {
				c.Violate("liveness", "store/"+kind+"/calls-never-return", fmt.Sprintf("no call on the store objects under test has returned for 60 s (%d operations completed, the clients are still inside their calls) while a fresh store object on the same cluster answers at once: the store objects are wedged (watchers were abandoned and cancelled during the history)", n), nil)
				return
			}
			c.Inconclusive("store calls hang and the cluster does not answer a fresh store object either: " + err.Error())
			return
		case <-time.After(20 * time.Second):
			c.Inconclusive("store calls hang and the cluster does not answer a fresh store object either")
			return
		}
	}
	c.Count("operations", int64(len(history)))
	for _, o := range history {
		if in := o.Input.(c15In); in.Kind == "update" {
			if out := o.Output.(c15Out); out.OK {
				c.Count("updates_accepted", 1)
			} else if out.Conflict {
				c.Count("stale_updates_refused", 1)
			}
		}
	}
	// 1. linearizability of every key's sub-history against the versioned CAS register
	res, info := porcupine.CheckOperationsVerbose(c15Model, history, 60*time.Second)
	c.Count("histories_checked", 1)
	switch res {
	case porcupine.Illegal:
		var bad []string
		for _, p := range info.PartialLinearizations() {
			_ = p
		}
		for _, o := range history {
			if len(bad) < 400 {
				bad = append(bad, fmt.Sprintf("client %d [%d,%d] %+v -> %+v", o.ClientId, o.Call, o.Return, o.Input, o.Output))
			}
		}
		c.Violate("linearizability", "store/"+kind+"/not-linearizable", "the history of create / get / update / update-status is not linearizable against a per-key versioned compare-and-set register (e.g. two writers succeeded from one read version, or a read saw a state that never was current)", bad)
		return
	case porcupine.Unknown:
		c.Inconclusive("linearizability checker timed out")
		return
	}
	// 2. versions and log indexes only grow / are never reused
	idxSeen := map[uint64]string{}
	for _, o := range history {
		out := o.Output.(c15Out)
		in := o.Input.(c15In)
		if out.OK && in.Kind == "update" && out.Ver <= in.ReadVer {
			c.Violate("monotonic", "store/"+kind+"/version-not-growing", fmt.Sprintf("update of %s from version %d returned version %d", in.Key, in.ReadVer, out.Ver), nil)
			return
		}
	}
	if kind == "v2/transaction" {
		ctx := context.Background()
		txs, _ := stores[0].(*kvTx).s.List(ctx)
		for _, t := range txs {
			if prev, ok := idxSeen[uint64(t.Index)]; ok {
				c.Violate("monotonic", "store/"+kind+"/index-reused", fmt.Sprintf("log index %d is held by %s and %s", t.Index, prev, t.ID), nil)
				return
			}
			idxSeen[uint64(t.Index)] = string(t.ID)
			byIdx, err := stores[0].(*kvTx).s.GetByIndex(ctx, t.Index)
			if err != nil || byIdx.ID != t.ID {
				c.Violate("monotonic", "store/"+kind+"/index-lookup", fmt.Sprintf("GetByIndex(%d) = %v, %v; List says %s", t.Index, byIdx, err, t.ID), nil)
				return
			}
			c.Count("log_indexes_checked", 1)
		}
	}
	// 2b. stores that keep the path values in a second primitive: at quiescence they hold what the last accepted
	//     full update wrote (accepted full updates are ordered by the version chain, so anything else was
	//     left there by an update that was refused)
	if vs, ok := stores[0].(kvValues); ok {
		for _, k := range keys {
			var lastFull, lastFullVer uint64
			refusedFull := map[uint64]string{}
			for _, o := range history {
				in, out := o.Input.(c15In), o.Output.(c15Out)
				if in.Key != k || in.Kind != "update" || !in.Full {
					continue
				}
				if out.OK && out.Ver > lastFullVer {
					lastFull, lastFullVer = in.Tag, out.Ver
				}
				if !out.OK {
					refusedFull[in.Tag] = fmt.Sprintf("client %d [%d,%d] %+v -> %+v", o.ClientId, o.Call, o.Return, in, out)
				}
			}
			got, err := vs.valueTag(context.Background(), k)
			if err != nil {
				continue
			}
			c.Count("final_values_compared", 1)
			if got != lastFull {
				msg := fmt.Sprintf("record %s: the last accepted Update (version %d) stored path value tag %d, but the store holds tag %d", k, lastFullVer, lastFull, got)
				if r, ok := refusedFull[got]; ok {
					msg += "; that tag belongs to an Update that was refused: " + r
				}
				c.Violate("lost-update", "store/"+kind+"/refused-update-overwrote-path-values", msg, nil)
				break // (the watcher part below is still evaluated)
			}
		}
	}
	// 3. every live watcher is eventually shown the final version of every record it is entitled to; the
	//    wait is a counted drain with a generous bound (it only ends runs in which something is really missing)
	deadline := time.Now().Add(15 * time.Second)
	for {
		missing := ""
		missingRacing := false
		for wi, w := range watchers {
			if w.abandon.Load() {
				continue
			}
			for _, k := range keys {
				fv := finalVer[k]
				if fv == 0 || (w.key != "" && w.key != k) {
					continue
				}
				if !w.replay && lastWriteAt[k] < w.started {
					continue // nothing written after it subscribed
				}
				w.mu.Lock()
				got := w.seen[k]
				w.mu.Unlock()
				if got < fv {
					missing = fmt.Sprintf("watcher %d (key=%q replay=%v racing=%v) has been shown version %d of %s, the final version is %d", wi, w.key, w.replay, w.racing, got, k, fv)
					missingRacing = w.racing
				}
			}
		}
		if missing == "" {
			break
		}
		if time.Now().After(deadline) {
			key := "store/" + kind + "/watcher-missed-final-version"
			if missingRacing && stores[0].perWatchStream() {
				key = "store/" + kind + "/watcher-subscribed-during-writes-missed-events"
			}
			c.Violate("watch", key, missing, nil)
			return
		}
		time.Sleep(2 * time.Millisecond)
	}
	live := 0
	for _, w := range watchers {
		if !w.abandon.Load() {
			live++
		}
	}
	c.Count("live_watchers_complete", int64(live))
	c.Class(kind)
	c.Distinct("history_shape", fmt.Sprintf("%s/%d keys/%d clients/%d stores", kind, nKeys, nClients, nStores))
	if c.Index%20 == 0 {
		var sample []string
		for _, o := range history[:min(12, len(history))] {
			sample = append(sample, fmt.Sprintf("client %d [%d,%d] %+v -> %+v", o.ClientId, o.Call, o.Return, o.Input, o.Output))
		}
		c.Sample(map[string]interface{}{"store": kind, "first_operations": sample, "operations": len(history), "watchers": len(watchers)})
	}
}

// c15ReplayRace aims at the window inside Watch between "read the current state for the replay" and "start
// listening": per round, watchers with replay (all records / one record, on the writer's store object and on another
// one) subscribe with a slow consumer - which stretches the replay over several milliseconds - while one writer
// updates every record exactly once, so that each of those updates is the last write to its record in the round.
// After the writer has finished every watcher must (eventually) have been shown that last version of every record
// it is entitled to. Clock-free verdict: the wait is a watchdog, followed by a fresh read of the store.
func c15ReplayRace(c *fw.Case, kind string, rounds int) {
	client := test.NewClient()
	defer client.Close()
	r := c.Rng.Fork("replayrace-" + kind)
	var keys []string
	for i := 0; i < 5; i++ {
		keys = append(keys, fmt.Sprintf("rr%d-%d", c.Index, i))
	}
	a, err := c15Stores(kind, client, keys)
	if err != nil {
		c.Inconclusive(err.Error())
		return
	}
	b, err := c15Stores(kind, client, keys)
	if err != nil {
		c.Inconclusive(err.Error())
		return
	}
	ctx := context.Background()
	var tag uint64 = 1 << 32
	for _, k := range keys {
		tag++
		if _, err := b.create(ctx, k, tag); err != nil {
			c.Inconclusive("create: " + err.Error())
			return
		}
	}
	time.Sleep(150 * time.Millisecond) // both store objects have their streams registered on every partition
	for round := 0; round < rounds; round++ {
		type rw struct {
			key    string
			store  string
			mu     sync.Mutex
			seen   map[string]uint64
			cancel context.CancelFunc
		}
		var ws []*rw
		// pre-drawn pauses: the sink runs in the store's goroutines
		pauses := make([]time.Duration, 64)
		for i := range pauses {
			pauses[i] = time.Duration(100+r.Intn(1900)) * time.Microsecond
		}
		start := func(s kv, name, key string) {
			wctx, cancel := context.WithCancel(ctx)
			w := &rw{key: key, store: name, seen: map[string]uint64{}, cancel: cancel}
			var n int64
			wi := len(ws)
			if err := s.watch(wctx, key, true, func(k string, v uint64) {
				i := atomic.AddInt64(&n, 1)
				if i <= 8 {
					time.Sleep(pauses[(int(i)+wi*8)%len(pauses)]) // a slow consumer during the replay
				}
				w.mu.Lock()
				if v > w.seen[k] {
					w.seen[k] = v
				}
				w.mu.Unlock()
			}); err != nil {
				cancel()
				c.Inconclusive("watch: " + err.Error())
				return
			}
			ws = append(ws, w)
		}
		final := map[string]uint64{}
		var fmu sync.Mutex
		done := make(chan struct{})
		order := r.Perm(len(keys))
		delays := make([]time.Duration, len(keys))
		for i := range delays {
			delays[i] = time.Duration(r.Intn(2500)) * time.Microsecond
		}
		go func() {
			defer close(done)
			for i, ki := range order {
				time.Sleep(delays[i])
				k := keys[ki]
				for attempt := 0; attempt < 20; attempt++ {
					rc, err := b.get(ctx, k)
					if err != nil {
						continue
					}
					t := atomic.AddUint64(&tag, 1)
					nr, err := b.update(ctx, rc, t, attempt%2 == 0)
					if err == nil {
						fmu.Lock()
						final[k] = nr.ver
						fmu.Unlock()
						break
					}
				}
			}
		}()
		start(a, "other store object", "")
		start(b, "the writer's store object", "")
		start(a, "other store object", keys[r.Intn(len(keys))])
		start(b, "the writer's store object", keys[r.Intn(len(keys))])
		<-done
		c.Count("replay_race_rounds", 1)
		deadline := time.Now().Add(10 * time.Second)
		for {
			missing := ""
			for wi, w := range ws {
				for _, k := range keys {
					if w.key != "" && w.key != k {
						continue
					}
					fmu.Lock()
					fv := final[k]
					fmu.Unlock()
					w.mu.Lock()
					got := w.seen[k]
					w.mu.Unlock()
					if got < fv {
						missing = fmt.Sprintf("round %d: watcher %d (with replay, key=%q, on %s), which subscribed while the writer was updating every record once, has been shown version %d of %s; the version written during the round is %d", round, wi, w.key, w.store, got, k, fv)
					}
				}
			}
			if missing == "" {
				break
			}
			if time.Now().After(deadline) {
				key := "store/" + kind + "/replay-watcher-missed-write-made-during-replay"
				if a.perWatchStream() {
					key = "store/" + kind + "/watcher-subscribed-during-writes-missed-events"
				}
				c.Violate("watch", key, missing, nil)
				for _, w := range ws {
					w.cancel()
				}
				return
			}
			time.Sleep(time.Millisecond)
		}
		c.Count("replay_race_watchers_complete", int64(len(ws)))
		for _, w := range ws {
			w.cancel()
		}
	}
	c.Distinct("history_shape", "replay-race/"+kind)
}

// c15V3Tx exercises the v3 transaction store: per-target logs, index uniqueness, List across targets, CAS, watch + cancel
func c15V3Tx(c *fw.Case) {
	client := test.NewClient()
	defer client.Close()
	s, err := txv3.NewAtomixStore(client)
	if err != nil {
		c.Inconclusive(err.Error())
		return
	}
	ctx := context.Background()
	targets := []configapiv3.Target{{ID: "t1", Type: "synth", Version: "1.0.0"}, {ID: "t2", Type: "synth", Version: "1.0.0"}}
	var seenMu sync.Mutex
	seen := map[string]uint64{}
	wctx, wcancel := context.WithCancel(ctx)
	defer wcancel()
	ch := make(chan configapiv3.TransactionEvent)
	if err := s.Watch(wctx, ch, txv3.WithReplay()); err != nil {
		c.Inconclusive(err.Error())
		return
	}
	go func() {
		for ev := range ch {
			seenMu.Lock()
			k := fmt.Sprintf("%s/%d", ev.Transaction.ID.Target.ID, ev.Transaction.ID.Index)
			if ev.Transaction.Version > seen[k] {
				seen[k] = ev.Transaction.Version
			}
			seenMu.Unlock()
		}
	}()
	// a second watcher that is cancelled while events flow
	cctx, ccancel := context.WithCancel(ctx)
	defer ccancel()
	ch2 := make(chan configapiv3.TransactionEvent)
	_ = s.Watch(cctx, ch2, txv3.WithReplay())
	go func() {
		for range ch2 {
		}
	}()
	time.Sleep(150 * time.Millisecond)
	var wg sync.WaitGroup
	var mu sync.Mutex
	created := map[string]uint64{}
	final := map[string]uint64{}
	for cl := 0; cl < 4; cl++ {
		wg.Add(1)
		go func(cl int) {
			defer wg.Done()
			for i := 0; i < 12; i++ {
				tg := targets[(cl+i)%2]
				t := &configapiv3.Transaction{ID: configapiv3.TransactionID{Target: tg}, Values: map[string]configapiv3.PathValue{"/foo": {Path: "/foo"}}}
				t.Key = fmt.Sprintf("c%d-%d", cl, i)
				if err := s.Create(ctx, t); err != nil {
					continue
				}
				k := fmt.Sprintf("%s/%d", tg.ID, t.ID.Index)
				mu.Lock()
				if prev, ok := created[k]; ok {
					c.Violate("monotonic", "store/v3/transaction/index-reused", fmt.Sprintf("index %s assigned twice (versions %d and %d)", k, prev, t.Version), nil)
				}
				created[k] = t.Version
				final[k] = t.Version
				mu.Unlock()
				// two racing status updates from the same read: at most one may win
				a, b := *t, *t
				var okA, okB bool
				var w2 sync.WaitGroup
				w2.Add(2)
				go func() { defer w2.Done(); okA = s.UpdateStatus(ctx, &a) == nil }()
				go func() { defer w2.Done(); okB = s.UpdateStatus(ctx, &b) == nil }()
				w2.Wait()
				c.Count("racing_update_pairs", 1)
				if okA && okB {
					c.Violate("linearizability", "store/v3/transaction/lost-update", fmt.Sprintf("two updates of %s from version %d both succeeded", k, t.Version), nil)
				}
				mu.Lock()
				if okA && a.Version > final[k] {
					final[k] = a.Version
				}
				if okB && b.Version > final[k] {
					final[k] = b.Version
				}
				mu.Unlock()
				if i == 5 && cl == 0 {
					ccancel() // cancelling a watch must not disturb the store
				}
			}
		}(cl)
	}
	wg.Wait()
	list, err := s.List(ctx)
	if err != nil {
		c.Violate("list", "store/v3/transaction/list-error", err.Error(), nil)
		return
	}
	if len(list) != len(created) {
		c.Violate("list", "store/v3/transaction/list-incomplete", fmt.Sprintf("List returned %d transactions, %d were created on %d targets", len(list), len(created), len(targets)), nil)
		return
	}
	c.Count("v3_transactions_listed", int64(len(list)))
	deadline := time.Now().Add(15 * time.Second)
	for {
		miss := ""
		seenMu.Lock()
		for k, v := range final {
			if seen[k] < v {
				miss = fmt.Sprintf("watcher has version %d of %s, final is %d", seen[k], k, v)
			}
		}
		seenMu.Unlock()
		if miss == "" {
			break
		}
		if time.Now().After(deadline) {
			c.Violate("watch", "store/v3/transaction/watcher-missed-final-version", miss, nil)
			break
		}
		time.Sleep(2 * time.Millisecond)
	}
	wcancel()
	c.Class("v3/transaction")
	c.Distinct("history_shape", "v3/transaction")
}

// c15SubscribeDuringWrites is the targeted witness of known finding KF-C15-1: watchers subscribe to the proposal
// store (one Atomix event stream per watcher) while writers are updating records on every partition; a watcher
// is entitled to every write that begins after its Watch call has returned. The attempt is repeated until one
// watcher is found that has not been shown such a write 3 s after the writers stopped, or the attempts are used up.
func c15SubscribeDuringWrites(c *fw.Case, attempts int) {
	const kind = "v2/proposal"
	for a := 0; a < attempts; a++ {
		client := test.NewClient()
		var keys []string
		for i := 0; i < 6; i++ {
			keys = append(keys, fmt.Sprintf("w%d-%d-%d", c.Index, a, i))
		}
		ws, err1 := c15Stores(kind, client, keys)
		rs, err2 := c15Stores(kind, client, keys)
		if err1 != nil || err2 != nil {
			client.Close()
			c.Inconclusive("stores could not be created")
			return
		}
		ctx := context.Background()
		var clock int64
		tick := func() int64 { return atomic.AddInt64(&clock, 1) }
		var mu sync.Mutex
		finalVer := map[string]uint64{}
		lastWriteCall := map[string]int64{}
		var stop atomic.Bool
		var wg sync.WaitGroup
		for wi := 0; wi < 3; wi++ {
			wg.Add(1)
			go func(wi int) {
				defer wg.Done()
				mine := []string{keys[2*wi], keys[2*wi+1]}
				last := map[string]*rec{}
				tag := uint64(1000 * (wi + 1))
				for !stop.Load() {
					for _, k := range mine {
						tag++
						call := tick()
						var rc *rec
						var err error
						if last[k] == nil {
							rc, err = ws.create(ctx, k, tag)
						} else {
							rc, err = ws.update(ctx, last[k], tag, true)
						}
						if err != nil || rc == nil {
							continue
						}
						last[k] = rc
						mu.Lock()
						finalVer[k] = rc.ver
						lastWriteCall[k] = call
						mu.Unlock()
					}
				}
			}(wi)
		}
		time.Sleep(time.Duration(1+a%3) * time.Millisecond)
		var watchers []*c15Watcher
		var cancels []context.CancelFunc
		for i := 0; i < 6; i++ {
			wctx, cancel := context.WithCancel(ctx)
			cancels = append(cancels, cancel)
			w := &c15Watcher{racing: true, seen: map[string]uint64{}}
			err := rs.watch(wctx, "", false, func(k string, v uint64) {
				w.mu.Lock()
				if v > w.seen[k] {
					w.seen[k] = v
				}
				w.mu.Unlock()
			})
			if err != nil {
				continue
			}
			w.started = tick()
			watchers = append(watchers, w)
		}
		time.Sleep([]time.Duration{0, 200 * time.Microsecond, 500 * time.Microsecond, time.Millisecond}[a%4])
		stop.Store(true)
		wg.Wait()
		c.Count("subscribe_during_writes_attempts", 1)
		c.Count("subscribe_during_writes_watchers", int64(len(watchers)))
		missing := func() string {
			mu.Lock()
			defer mu.Unlock()
			for wi, w := range watchers {
				for _, k := range keys {
					if finalVer[k] == 0 || lastWriteCall[k] < w.started {
						continue
					}
					w.mu.Lock()
					got := w.seen[k]
					w.mu.Unlock()
					if got < finalVer[k] {
						return fmt.Sprintf("attempt %d: watcher %d subscribed at logical time %d; the last write of %s began at %d and produced version %d; the watcher has been shown version %d", a, wi, w.started, k, lastWriteCall[k], finalVer[k], got)
					}
				}
			}
			return ""
		}
		deadline := time.Now().Add(3 * time.Second)
		lastIter := time.Now()
		m := missing()
		for m != "" && time.Now().Before(deadline) {
			time.Sleep(2 * time.Millisecond)
			if time.Since(lastIter) > 250*time.Millisecond {
				deadline = time.Now().Add(3 * time.Second) // the machine did not schedule us: start the wait again
			}
			lastIter = time.Now()
			m = missing()
		}
		for _, cancel := range cancels {
			cancel()
		}
		client.Close()
		if m != "" {
			c.Violate("watch", "store/"+kind+"/watcher-subscribed-during-writes-missed-events", m, nil)
			break
		}
	}
	c.Class("v2/proposal subscribe-during-writes")
	c.Distinct("history_shape", "v2/proposal/subscribe-during-writes")
}

func init() {
	kinds := []string{"v2/transaction", "v2/proposal", "v2/configuration", "v3/configuration", "v3/transaction"}
	fw.Register(&fw.Check{ID: "C15", Level: "exploration", Race: true,
		Technique: "runtime monitoring under the Go race detector: concurrent create / get / update / update-status / watch / cancel histories by 4..7 client goroutines on 2..3 store objects of one Atomix cluster; porcupine linearizability check per key against a versioned compare-and-set register (unique tags identify writes); version / index monotonicity; counted watcher-completeness drain; abandoned and cancelled consumers; replay-race rounds (watchers with replay and a slow consumer subscribe while a writer makes the last write to every record)",
		Rule:      "each case = one history of ~300 operations on 3..5 keys for one store kind (v2 transaction, proposal, configuration; v3 configuration, transaction), or 10 replay-race rounds for each of the five store kinds, or one v3 transaction-store scenario (per-target logs, racing status updates, List across targets, cancel while events flow); every tenth case is an in-vivo history of the whole system under the race detector (watcher completeness of the controllers' own watchers, race reports); distinct_nontrivial = distinct (store, keys, clients, store objects) shapes",
		Assumptions: []string{"the Atomix in-memory test runtime is a faithful Atomix; watchers subscribed before the writers start are given 150 ms to register on every partition (the Atomix client returns from Events after the first partition's acknowledgement)",
			"an operation that failed with an error other than conflict / already-exists / not-found is left out of the history (it may or may not have taken effect); none was observed in development"},
		DistinctSet: "history_shape", CaseTimeout: 300e9,
		Floors: map[string]int64{"operations": 8000, "histories_checked": 40, "live_watchers_complete": 150, "racing_update_pairs": 200, "stale_updates_refused": 1000, "updates_accepted": 1000, "in_vivo_histories": 5, "watcher_final_versions_checked": 100, "replay_race_watchers_complete": 1000},
		Cases: func(tier string) int {
			if tier == "thorough" {
				return 3000
			}
			return 70
		},
		Run: func(c *fw.Case) {
			if c.Index == 0 {
				c15SubscribeDuringWrites(c, 400)
				return
			}
			if c.Index%10 == 9 {
				// in vivo: one history of the whole system (real controllers, handlers, fan-out to their watchers) under
				// the race detector; reported here: race reports, watchers that were never shown the latest version
				// of a record, gaps in the transaction log
				p := &engine.Profile{Targets: []string{"t1", "t2"}, MinOps: 5, MaxOps: 10, PMulti: 35, PPoison: 12, PEq: 10, PDevReject: 8, PDelete: 30,
					PRollback: 15, PEnv: 25, PNoWait: 60, PSync: 25, PStartOffline: 25, PDevFault: 10, PSerializable: 25, Paths: "rich"}
				if e := s2Run(c, "C15", p); e != nil {
					c.Count("in_vivo_histories", 1)
					c.Class("in-vivo")
					c.Distinct("history_shape", "in-vivo")
				}
				return
			}
			if c.Index%7 == 6 {
				c15V3Tx(c)
				return
			}
			if c.Index%7 == 5 {
				for _, k := range kinds {
					if !c.Violated() {
						c15ReplayRace(c, k, 10)
					}
				}
				c.Class("replay-race")
				return
			}
			c15Run(c, kinds[c.Index%7%len(kinds)])
		}})
}
