package props

import (
	"fmt"
	"time"

	"google.golang.org/grpc/codes"

	"verif/engine"
	"verif/fw"
	"verif/refmodel"
	"verif/world"
)

var s2Assumptions = []string{
	"environment fakes (topology store, devices with gNMI Set semantics and master arbitration, connection manager, model-plugin service behind the real registry) behave as described in DESIGN.md 3.2",
	"the Atomix in-memory test runtime (go-sdk/pkg/test) is a faithful single-node Atomix",
	"single onos-config node; plugin and device verdicts are deterministic functions of the document / request",
	"liveness is judged at stability: no successful write and no device request for 8 s (> the controllers' 5 s maximum retry back-off)",
}

// s2Check registers a property check that runs witnesses first and then PRNG-generated histories under a profile function
func s2Check(id, level, technique, rule string, quick, thorough int, floors map[string]int64, profile func(c *fw.Case) *engine.Profile) {
	ws := witnessesFor(id)
	directed := 0
	if id == "C04" || id == "C10" || id == "C09" {
		directed = 2
	}
	fw.Register(&fw.Check{ID: id, Level: level, Technique: technique, Rule: rule, Assumptions: s2Assumptions, Floors: floors,
		CaseTimeout: 240e9,
		Cases: func(tier string) int {
			if tier == "thorough" {
				return len(ws) + thorough + directed
			}
			return len(ws) + quick + directed
		},
		Run: func(c *fw.Case) {
			n := len(ws) + quick
			if c.Tier == "thorough" {
				n = len(ws) + thorough
			}
			if c.Index >= n {
				// directed schedule (see s2ElectionSpansCommitAndApply)
				s2ElectionSpansCommitAndApply(c, id, c.Index == n+1)
				return
			}
			p := profile(c)
			if c.Index < len(ws) {
				c.Count("regression_witnesses_replayed", 1)
				e := s2RunSteps(c, id, p, ws[c.Index].Steps)
				if e != nil {
					c.Class("witness:" + ws[c.Index].Name)
					c.Sample(map[string]interface{}{"witness": ws[c.Index].Name, "script": e.Script, "goal_reached": e.GoalReached})
				}
				return
			}
			s2Run(c, id, p)
		}})
}

const s2Rule = "cases = hand-written regression witnesses + PRNG-generated histories (+ for C04, C09, C10 two directed schedules: a mastership election that spans a commit and its apply) (case seed = f(VERIF_SEED, property, index)) executed on the real controllers; " +
	"a case is non-trivial when it logged at least one transaction; distinct_nontrivial counts distinct shape classes (set of step kinds x set of transaction outcomes)"

func init() {
	two := []string{"t1", "t2"}
	three := []string{"t1", "t2", "t3"}
	s2Check("C01", "exploration", "runtime monitoring: PRNG histories (multi-target, SERIALIZABLE and default isolation, poisoned subsets) on the real controllers under schedule perturbation, transient store faults and process kills (before decorated effects and between individual Atomix writes); end state vs sequential transaction model + per-transaction merge-pattern monitor over the event log",
		s2Rule, 150, 6000, map[string]int64{"multi_target_transactions": 200, "multi_target_aborted": 30, "executions_reaching_final_state": 100, "executions_with_a_process_kill": 15},
		func(c *fw.Case) *engine.Profile {
			p := &engine.Profile{Targets: two, MinOps: 4, MaxOps: 9, PMulti: 80, PPoison: 25, PEq: 15, PDevReject: 5, PDelete: 25, PRollback: 8, PEnv: 10, PNoWait: 40, PSync: 20, PStartOffline: 15, PDevFault: 5, PSerializable: 25, Paths: "rich"}
			if c.Index%3 == 0 {
				p.Targets = three
			}
			if c.Index%2 == 0 {
				p.PSlowPlugin = 35
				p.PNoWait = 80
			}
			if c.Index%4 == 1 {
				// a reconcile pass over a multi-target transaction is cut short between two of its store writes
				p.PStoreFault, p.PCreateFault = 10, 25
			}
			if c.Index%5 == 4 {
				// the property's quantifier includes a process crash between any two store writes: one kill per history,
				// before a decorated effect or between two individual Atomix writes, restart on the same cluster
				p.PCrash = 100
			}
			return p
		})
	s2Check("C02", "exploration", "runtime monitoring: online order monitor over decorated store / device calls (merge order, push order, push-after-merge, push after every earlier merged index was answered by the device, index monotonicity) on histories of overlapping transactions with store faults, delayed watch deliveries and process kills",
		s2Rule, 150, 6000, map[string]int64{"overlapping_proposal_pairs": 200, "proposal_pushes_observed": 300, "merges_observed": 300, "executions_with_a_process_kill": 15},
		func(c *fw.Case) *engine.Profile {
			p := &engine.Profile{Targets: two, MinOps: 5, MaxOps: 12, PMulti: 30, PPoison: 10, PEq: 5, PDevReject: 8, PDelete: 25, PRollback: 8, PEnv: 20, PNoWait: 85, PSync: 10, PStartOffline: 35, PDevFault: 15, PSerializable: 25, Paths: "rich"}
			if c.Index%2 == 1 {
				p.PStoreFault = 15
			}
			if c.Index%3 == 0 {
				p.Targets = []string{"t1"}
				p.Paths = "basic"
			}
			if c.Index%5 == 3 {
				p.PCrash = 100 // crash points are part of the property's quantifier
			}
			if c.Index%2 == 0 {
				p.PPreempt = 15 // "pre-empted at store-call boundaries"
			}
			return p
		})
	s2Check("C04", "fault_enumeration", "runtime monitoring: device content vs applied-configuration model after PRNG fault sequences (offline, late connection, restart-with-empty-state, connection replacement); re-sync gate monitor",
		s2Rule, 150, 6000, map[string]int64{"resync_pushes_observed": 100, "mastership_changes": 200, "executions_reaching_final_state": 100},
		func(c *fw.Case) *engine.Profile {
			p := &engine.Profile{Targets: two, MinOps: 4, MaxOps: 10, PMulti: 25, PPoison: 10, PEq: 5, PDevReject: 12, PDelete: 35, PRollback: 12, PEnv: 60, PNoWait: 30, PSync: 15, PStartOffline: 50, PDevFault: 10, PSerializable: 25, Paths: "rich"}
			if c.Index%2 == 0 {
				p.PStaleWriter = 40 // elections and re-sync bookkeeping overlap with applies
				p.PNoWait = 70
				p.PPreempt = 15
			}
			return p
		})
	s2Check("C06", "exploration", "runtime monitoring: rollback verdicts, stored configuration and device vs the model's pre-change snapshots",
		s2Rule, 150, 6000, map[string]int64{"rollbacks": 250, "executions_reaching_final_state": 100},
		func(c *fw.Case) *engine.Profile {
			p := &engine.Profile{Targets: two, MinOps: 4, MaxOps: 10, PMulti: 30, PPoison: 8, PEq: 5, PDevReject: 5, PDelete: 40, PRollback: 40, PEnv: 10, PNoWait: 15, PSync: 30, PStartOffline: 10, PDevFault: 5, PSerializable: 25, Paths: "rich"}
			if c.Index%3 == 0 {
				// changes validated while their predecessor is committed but not yet applied
				p.PStartOffline, p.PEnv, p.PNoWait = 60, 25, 50
			}
			if c.Index%4 == 1 {
				p.Targets, p.Paths = []string{"t1"}, "basic"
			}
			if c.Index%4 == 2 {
				// multi-target changes and rollbacks whose reconcile passes are cut short by transient store errors
				p.PMulti, p.PStoreFault, p.PCreateFault = 70, 10, 25
			}
			return p
		})
	s2Check("C09", "exploration", "runtime monitoring: stability detection + fixed-point pass (re-reconcile every object with fresh reconcilers) on the real controllers under schedule perturbation",
		s2Rule, 200, 8000, map[string]int64{"fixed_point_passes": 120, "executions_reaching_final_state": 120},
		func(c *fw.Case) *engine.Profile {
			p := &engine.Profile{Targets: two, MinOps: 4, MaxOps: 11, PMulti: 35, PPoison: 20, PEq: 10, PDevReject: 10, PDelete: 25, PRollback: 18, PEnv: 25, PNoWait: 60, PSync: 20, PStartOffline: 40, PDevFault: 12, PSerializable: 25, Paths: "rich"}
			if c.Index%2 == 1 {
				p.PStoreFault = 12
			} else {
				if c.Index%4 == 0 {
					p.PPreempt = 15
				}
				p.IdleCheck = true // no injected store errors: an idle system has no retry pending that could explain progress
			}
			return p
		})
	s2Check("C10", "fault_enumeration", "runtime monitoring: online mastership monitor over histories dominated by connection loss / replacement / device restarts, relations of another onos-config node and process kills: terms, master changes, every election against the environment's connections and relations, election id and connection of every device request against the configuration version its task read, one connection per term, re-sync gate, re-sync content vs the applied values read, connection requests of the target controller",
		s2Rule, 150, 6000, map[string]int64{"mastership_changes": 300, "device_requests_checked": 500, "elections_checked": 300, "executions_reaching_final_state": 100},
		func(c *fw.Case) *engine.Profile {
			p := &engine.Profile{Targets: two, MinOps: 4, MaxOps: 9, PMulti: 25, PPoison: 8, PEq: 3, PDevReject: 5, PDelete: 25, PRollback: 8, PEnv: 85, PNoWait: 50, PSync: 10, PStartOffline: 40, PDevFault: 10, PSerializable: 25, Paths: "basic"}
			if c.Index%2 == 1 {
				p.PForeign = 25 // competing relations: another onos-config node's CONTROLS relation comes and goes
			}
			if c.Index%3 == 0 {
				p.PStaleWriter = 40
				p.PPreempt = 15
			}
			if c.Index%4 == 2 {
				p.PCrash = 100 // a restarted process finds the CONTROLS relations of its previous incarnation in the topology
			}
			return p
		})
	refusals := []codes.Code{codes.Unknown, codes.InvalidArgument, codes.NotFound, codes.AlreadyExists, codes.ResourceExhausted, codes.FailedPrecondition,
		codes.Aborted, codes.OutOfRange, codes.Unimplemented, codes.Internal, codes.DataLoss, codes.Unauthenticated}
	s2Check("C11", "fault_enumeration", "runtime monitoring: every refusal code x PRNG histories with transient-error bursts; transaction outcome, failure class, device content and progress of later transactions vs model",
		s2Rule+"; the device's refusal code cycles through the 12 non-transient gRPC codes by case index, transient bursts (Unavailable, Canceled, DeadlineExceeded, length 1..3) are injected at random positions",
		180, 6000, map[string]int64{"tx_outcome_apply-failed": 60, "executions_reaching_final_state": 120},
		func(c *fw.Case) *engine.Profile {
			p := &engine.Profile{Targets: two, MinOps: 4, MaxOps: 9, PMulti: 35, PPoison: 5, PEq: 3, PDevReject: 35, PDelete: 20, PRollback: 8, PEnv: 10, PNoWait: 40, PSync: 40, PStartOffline: 15, PDevFault: 40, PSerializable: 25, Paths: "basic"}
			p.RejectCode = refusals[c.Index%len(refusals)]
			if c.Index%3 == 1 {
				p.PStoreFault = 15
			}
			c.Distinct("refusal_code", fmt.Sprint(p.RejectCode))
			return p
		})
}

// c05Boundary drives documents of exact byte sizes around the plugin registry's 100 kB chunk size through the
// real Validate path and checks that the plugin saw the complete document, chunked as specified, and that the
// validated document is what became readable.
func c05Boundary(c *fw.Case, sizes []int) {
	p := &engine.Profile{Targets: []string{"t1"}}
	opts := world.Options{Targets: p.Targets}
	w, err := world.New(opts)
	if err != nil {
		c.Inconclusive("world: " + err.Error())
		return
	}
	defer w.Close()
	e := &engine.Exec{C: c, W: w, P: p, Opts: opts}
	w.Connect("t1")
	pad := func(n int) string {
		b := make([]byte, n)
		for i := range b {
			b[i] = byte('a' + i%26)
		}
		return string(b)
	}
	lastDocLen := func() int {
		docs := w.Plugin.DocsCopy()
		if len(docs) == 0 {
			return -1
		}
		return len(docs[len(docs)-1].Doc)
	}
	wait := func(call *engine.Call) bool {
		select {
		case <-call.Done():
			return true
		case <-time.After(60 * time.Second):
			c.Inconclusive("a Set was not answered within 60 s")
			return false
		}
	}
	// calibrate: document size = len(value) + k
	base := 1000
	c0 := e.IssueSet([]refmodel.Op{up("t1", "/a/b", "keep"), up("t1", "/foo", pad(base))}, true)
	if !wait(c0) {
		return
	}
	k := lastDocLen() - base
	var tried []string
	for _, size := range sizes {
		n := size - k
		if n < 0 {
			continue
		}
		before := len(w.Plugin.DocsCopy())
		call := e.IssueSet([]refmodel.Op{up("t1", "/foo", pad(n))}, true)
		if !wait(call) {
			return
		}
		docs := w.Plugin.DocsCopy()
		if len(docs) != before+1 {
			c.Violate("validated", "validated/document-count", fmt.Sprintf("a Set produced %d validations instead of 1", len(docs)-before), nil)
			return
		}
		d := docs[len(docs)-1]
		c.Count("boundary_documents", 1)
		tried = append(tried, fmt.Sprintf("%d bytes in chunks %v", len(d.Doc), d.Chunks))
		c.Distinct("document_size", fmt.Sprint(len(d.Doc)))
		sum := 0
		for i, ch := range d.Chunks {
			sum += ch
			if ch == 0 || ch > 100000 || (i < len(d.Chunks)-1 && ch != 100000) {
				c.Violate("validated", "validated/chunking", fmt.Sprintf("document of %d bytes was sent in chunks %v", size, d.Chunks), nil)
			}
		}
		if sum != len(d.Doc) || len(d.Problem) > 0 {
			c.Violate("validated", "validated/chunk-reassembly", fmt.Sprintf("document of %d bytes arrived as %d bytes in chunks %v (problems %v)", len(d.Doc), sum, d.Chunks, d.Problem), nil)
		}
		got, err := engine.GetTree(w.Cur(), "t1")
		if err != nil {
			c.Violate("config", "config/get-error", err.Error(), nil)
			return
		}
		want := refmodel.Tree{}
		want.Set(refmodel.MustParse("/a/b"), refmodel.S("keep"))
		want.Set(refmodel.MustParse("/foo"), refmodel.S(pad(n)))
		if diff := got.Diff(want); len(diff) > 0 {
			c.Violate("config", "config/boundary", fmt.Sprintf("after a document of %d bytes Get differs: %d differences", size, len(diff)), nil)
		}
		if diff := d.Leaves.Diff(want); len(diff) > 0 {
			c.Violate("validated", "validated/merge-differs-from-document/boundary", fmt.Sprintf("the document the plugin was given for a configuration of about %d bytes (%d bytes in chunks %v) does not hold the configuration that became readable: %d leaves differ", size, len(d.Doc), d.Chunks, len(diff)), nil)
		}
		if c.Violated() {
			return
		}
		if len(d.Doc) != size {
			// the content is right, so this is the calibration of the padding, not the system
			c.Inconclusive(fmt.Sprintf("could not produce a document of %d bytes (got %d)", size, len(d.Doc)))
			return
		}
	}
	c.Class(fmt.Sprintf("boundary:%v", sizes))
	c.Sample(map[string]interface{}{"documents": tried})
	e.CancelAll()
}

func init() {
	ws := witnessesFor("C05")
	var groups [][]int
	quickSizes := []int{1, 99990, 99998, 99999, 100000, 100001, 100002, 100010, 199995, 199999, 200000, 200001, 200005, 300000, 345678}
	for i := 0; i < len(quickSizes); i += 3 {
		j := i + 3
		if j > len(quickSizes) {
			j = len(quickSizes)
		}
		groups = append(groups, quickSizes[i:j])
	}
	var thoroughGroups [][]int
	for s := 99980; s <= 100020; s += 4 {
		thoroughGroups = append(thoroughGroups, []int{s, s + 1, s + 2, s + 3})
	}
	for s := 199990; s <= 200010; s += 4 {
		thoroughGroups = append(thoroughGroups, []int{s, s + 1, s + 2, s + 3})
	}
	fw.Register(&fw.Check{ID: "C05", Level: "exploration",
		Technique:   "runtime monitoring: recording model-plugin fake behind the real registry; every merge compared leaf for leaf with the document the plugin accepted for that proposal; exact document sizes across the 100 kB chunk boundary",
		Rule:        s2Rule + "; plus boundary cases that drive documents of exact byte sizes (around 100000, 200000, 300000) through the real chunked Validate",
		Assumptions: s2Assumptions, CaseTimeout: 240e9,
		Floors: map[string]int64{"merges_compared_with_document": 400, "plugin_rejections": 40, "boundary_documents": 12, "overlapping_proposal_pairs": 100},
		Cases: func(tier string) int {
			if tier == "thorough" {
				return len(ws) + len(groups) + len(thoroughGroups) + 6000
			}
			return len(ws) + len(groups) + 140
		},
		Run: func(c *fw.Case) {
			i := c.Index
			p := &engine.Profile{Targets: []string{"t1", "t2"}, MinOps: 5, MaxOps: 12, PMulti: 25, PPoison: 22, PEq: 25, PDevReject: 3, PDelete: 30, PRollback: 12, PEnv: 8, PNoWait: 75, PSync: 10, PStartOffline: 15, PDevFault: 3, PSerializable: 25, Paths: "rich"}
			if i%2 == 0 {
				p.Targets = []string{"t1"}
			}
			if i < len(ws) {
				c.Count("regression_witnesses_replayed", 1)
				if e := s2RunSteps(c, "C05", p, ws[i].Steps); e != nil {
					c.Class("witness:" + ws[i].Name)
					c.Sample(map[string]interface{}{"witness": ws[i].Name, "script": e.Script})
				}
				return
			}
			i -= len(ws)
			if i < len(groups) {
				c05Boundary(c, groups[i])
				return
			}
			i -= len(groups)
			if c.Tier == "thorough" {
				if i < len(thoroughGroups) {
					c05Boundary(c, thoroughGroups[i])
					return
				}
			}
			s2Run(c, "C05", p)
		}})
}
