package props

import (
	"fmt"

	"google.golang.org/grpc/codes"

	"verif/engine"
	"verif/fw"
)

var s2Assumptions = []string{
	"environment fakes (topology store, devices with gNMI Set semantics and master arbitration, connection manager, model-plugin service behind the real registry) behave as described in DESIGN.md 3.2",
	"the Atomix in-memory test runtime (go-sdk/pkg/test) is a faithful single-node Atomix",
	"single onos-config node; plugin and device verdicts are deterministic functions of the document / request",
	"liveness is judged at stability: no successful write and no device request for 8 s (> the controllers' 5 s maximum retry back-off)",
}

// s2Check registers a property check that runs witnesses first and then PRNG-generated histories under a profile function
func s2Check(id, level, technique, rule string, quick, thorough int, floors map[string]int64, profile func(c *fw.Case) *engine.Profile) {
	ws := witnessesFor(id)
	fw.Register(&fw.Check{ID: id, Level: level, Technique: technique, Rule: rule, Assumptions: s2Assumptions, Floors: floors,
		CaseTimeout: 240e9,
		Cases: func(tier string) int {
			if tier == "thorough" {
				return len(ws) + thorough
			}
			return len(ws) + quick
		},
		Run: func(c *fw.Case) {
			p := profile(c)
			if c.Index < len(ws) {
				c.Count("regression_witnesses_replayed", 1)
				e := s2RunSteps(c, id, p, ws[c.Index].Steps)
				if e != nil {
					c.Class("witness:" + ws[c.Index].Name)
					c.Sample(map[string]interface{}{"witness": ws[c.Index].Name, "script": e.Script, "goal_reached": e.GoalReached})
				}
				return
			}
			s2Run(c, id, p)
		}})
}

const s2Rule = "cases = hand-written regression witnesses + PRNG-generated histories (case seed = f(VERIF_SEED, property, index)) executed on the real controllers; " +
	"a case is non-trivial when it logged at least one transaction; distinct_nontrivial counts distinct shape classes (set of step kinds x set of transaction outcomes)"

func init() {
	two := []string{"t1", "t2"}
	three := []string{"t1", "t2", "t3"}
	s2Check("C01", "exploration", "runtime monitoring: PRNG histories on the real controllers, end state vs sequential transaction model + per-transaction merge-pattern monitor over the event log",
		s2Rule, 150, 6000, map[string]int64{"multi_target_transactions": 200, "multi_target_aborted": 30, "executions_reaching_final_state": 100},
		func(c *fw.Case) *engine.Profile {
			p := &engine.Profile{Targets: two, MinOps: 4, MaxOps: 9, PMulti: 80, PPoison: 25, PEq: 15, PDevReject: 5, PDelete: 25, PRollback: 8, PEnv: 10, PNoWait: 40, PSync: 20, PStartOffline: 15, PDevFault: 5, Paths: "rich"}
			if c.Index%3 == 0 {
				p.Targets = three
			}
			return p
		})
	s2Check("C02", "exploration", "runtime monitoring: online order monitor over decorated store / device calls (merge order, push order, push-after-merge, index monotonicity)",
		s2Rule, 150, 6000, map[string]int64{"overlapping_proposal_pairs": 200, "proposal_pushes_observed": 300, "merges_observed": 300},
		func(c *fw.Case) *engine.Profile {
			p := &engine.Profile{Targets: two, MinOps: 5, MaxOps: 12, PMulti: 30, PPoison: 10, PEq: 5, PDevReject: 8, PDelete: 25, PRollback: 8, PEnv: 20, PNoWait: 85, PSync: 10, PStartOffline: 35, PDevFault: 15, Paths: "rich"}
			if c.Index%3 == 0 {
				p.Targets = []string{"t1"}
				p.Paths = "basic"
			}
			return p
		})
	s2Check("C04", "fault_enumeration", "runtime monitoring: device content vs applied-configuration model after PRNG fault sequences (offline, late connection, restart-with-empty-state, connection replacement); re-sync gate monitor",
		s2Rule, 150, 6000, map[string]int64{"resync_pushes_observed": 100, "mastership_changes": 200, "executions_reaching_final_state": 100},
		func(c *fw.Case) *engine.Profile {
			return &engine.Profile{Targets: two, MinOps: 4, MaxOps: 10, PMulti: 25, PPoison: 10, PEq: 5, PDevReject: 12, PDelete: 35, PRollback: 12, PEnv: 60, PNoWait: 30, PSync: 15, PStartOffline: 50, PDevFault: 10, Paths: "rich"}
		})
	s2Check("C06", "exploration", "runtime monitoring: rollback verdicts, stored configuration and device vs the model's pre-change snapshots",
		s2Rule, 150, 6000, map[string]int64{"rollbacks": 250, "executions_reaching_final_state": 100},
		func(c *fw.Case) *engine.Profile {
			return &engine.Profile{Targets: two, MinOps: 4, MaxOps: 10, PMulti: 30, PPoison: 8, PEq: 5, PDevReject: 5, PDelete: 40, PRollback: 40, PEnv: 10, PNoWait: 15, PSync: 30, PStartOffline: 10, PDevFault: 5, Paths: "rich"}
		})
	s2Check("C09", "exploration", "runtime monitoring: stability detection + fixed-point pass (re-reconcile every object with fresh reconcilers) on the real controllers under schedule perturbation",
		s2Rule, 200, 8000, map[string]int64{"fixed_point_passes": 120, "executions_reaching_final_state": 120},
		func(c *fw.Case) *engine.Profile {
			return &engine.Profile{Targets: two, MinOps: 4, MaxOps: 11, PMulti: 35, PPoison: 20, PEq: 10, PDevReject: 10, PDelete: 25, PRollback: 18, PEnv: 25, PNoWait: 60, PSync: 20, PStartOffline: 40, PDevFault: 12, Paths: "rich"}
		})
	s2Check("C10", "fault_enumeration", "runtime monitoring: online mastership monitor (terms, master changes, election id and connection of every device request against the configuration version its task read, re-sync gate)",
		s2Rule, 150, 6000, map[string]int64{"mastership_changes": 300, "device_requests_checked": 500},
		func(c *fw.Case) *engine.Profile {
			return &engine.Profile{Targets: two, MinOps: 4, MaxOps: 9, PMulti: 25, PPoison: 8, PEq: 3, PDevReject: 5, PDelete: 25, PRollback: 8, PEnv: 85, PNoWait: 50, PSync: 10, PStartOffline: 40, PDevFault: 10, Paths: "basic"}
		})
	refusals := []codes.Code{codes.Unknown, codes.InvalidArgument, codes.NotFound, codes.AlreadyExists, codes.ResourceExhausted, codes.FailedPrecondition,
		codes.Aborted, codes.OutOfRange, codes.Unimplemented, codes.Internal, codes.DataLoss, codes.Unauthenticated}
	s2Check("C11", "fault_enumeration", "runtime monitoring: every refusal code x PRNG histories with transient-error bursts; transaction outcome, failure class, device content and progress of later transactions vs model",
		s2Rule+"; the device's refusal code cycles through the 12 non-transient gRPC codes by case index, transient bursts (Unavailable, Canceled, DeadlineExceeded, length 1..3) are injected at random positions",
		180, 6000, map[string]int64{"tx_outcome_apply-failed": 60, "executions_reaching_final_state": 120},
		func(c *fw.Case) *engine.Profile {
			p := &engine.Profile{Targets: two, MinOps: 4, MaxOps: 9, PMulti: 35, PPoison: 5, PEq: 3, PDevReject: 35, PDelete: 20, PRollback: 8, PEnv: 10, PNoWait: 40, PSync: 40, PStartOffline: 15, PDevFault: 40, Paths: "basic"}
			p.RejectCode = refusals[c.Index%len(refusals)]
			c.Distinct("refusal_code", fmt.Sprint(p.RejectCode))
			return p
		})
}
