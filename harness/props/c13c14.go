package props

import (
	"context"
	"fmt"
	"os"
	"sort"
	"strings"
	"time"

	configapi "github.com/onosproject/onos-api/go/onos/config/v2"
	"github.com/openconfig/gnmi/proto/gnmi"
	"github.com/openconfig/gnmi/proto/gnmi_ext"
	"google.golang.org/grpc/metadata"

	"verif/engine"
	"verif/fw"
	"verif/refmodel"
	"verif/world"
)

// trySet calls the Set handler on a world without controllers: an accepted request logs a transaction and then
// waits for events that never come, so the call is released by cancelling its context as soon as the log has grown
// or the call has returned. Returns (logged transaction or nil, error of a returned call, returned?).
func trySet(w *world.World, ctx context.Context, req *gnmi.SetRequest) (*configapi.Transaction, error, bool) {
	inc := w.Cur()
	before, _ := inc.RawTxs.List(context.Background())
	cctx, cancel := context.WithCancel(ctx)
	defer cancel()
	type res struct{ err error }
	ch := make(chan res, 1)
	go func() {
		_, err := inc.Server.Set(cctx, req)
		ch <- res{err}
	}()
	deadline := time.Now().Add(20 * time.Second)
	for time.Now().Before(deadline) {
		select {
		case r := <-ch:
			after, _ := inc.RawTxs.List(context.Background())
			if len(after) > len(before) {
				return newest(after), r.err, true
			}
			return nil, r.err, true
		default:
		}
		after, _ := inc.RawTxs.List(context.Background())
		if len(after) > len(before) {
			cancel()
			<-ch
			return newest(after), nil, false
		}
		time.Sleep(100 * time.Microsecond)
	}
	return nil, fmt.Errorf("neither answered nor logged within 20 s"), false
}

func newest(txs []*configapi.Transaction) *configapi.Transaction {
	var n *configapi.Transaction
	for _, t := range txs {
		if n == nil || t.Index > n.Index {
			n = t
		}
	}
	return n
}

// ---------------------------------------------------------------- C14

func c14Run(c *fw.Case, setting string, unset bool, lists [][]string) {
	if unset {
		os.Unsetenv("ADMINGROUPS")
	} else {
		os.Setenv("ADMINGROUPS", setting)
	}
	defer os.Unsetenv("ADMINGROUPS")
	w, err := world.New(world.Options{Targets: []string{"t1"}, NoControllers: true})
	if err != nil {
		c.Inconclusive("world: " + err.Error())
		return
	}
	defer w.Close()
	admins := map[string]bool{}
	if !unset {
		for _, a := range strings.Split(setting, ",") {
			if a != "" {
				admins[a] = true
			}
		}
	}
	for i, groups := range lists {
		// which claims the token carries: a user token (name), a service-account token (preferred_username only),
		// both, or nothing but the groups
		var pairs []string
		shape := (i + len(setting)) % 4
		switch shape {
		case 0:
			pairs = []string{"name", "alice", "email", "alice@example.org"}
		case 1:
			pairs = []string{"preferred_username", "service-account-x"}
		case 2:
			pairs = []string{"preferred_username", "alice", "name", "Alice A", "email", "alice@example.org"}
		}
		joined := strings.Join(groups, ";")
		if groups != nil {
			pairs = append(pairs, "groups", joined)
		}
		c.Distinct("identity_shape", fmt.Sprintf("claims=%d groups=%v", shape, groups != nil))
		ctx := metadata.NewIncomingContext(context.Background(), metadata.Pairs(pairs...))
		want := false
		for _, g := range groups {
			if admins[g] {
				want = true
			}
		}
		if shape == 3 && joined == "" {
			want = true // no identity metadata at all: the request is not an authenticated one
			c.Count("sets_without_identity", 1)
		}
		tx, err, returned := trySet(w, ctx, engineSet("t1", "/foo", fmt.Sprintf("v%d", i)))
		c.Count("authenticated_sets", 1)
		allowed := tx != nil
		if want {
			c.Count("sets_expected_allowed", 1)
		}
		if allowed != want {
			kind := "allowed-without-admin-group"
			if want {
				kind = "refused-despite-admin-group"
			}
			c.Violate("rbac", "rbac/"+kind, fmt.Sprintf("ADMINGROUPS=%q (unset=%v), identity metadata %q, caller groups %q: transaction logged=%v, answer %v; exact membership says allowed=%v", setting, unset, pairs, groups, allowed, err, want), nil)
			return
		}
		if !allowed && (!returned || err == nil) {
			c.Violate("rbac", "rbac/refusal-without-error", fmt.Sprintf("ADMINGROUPS=%q groups %q: refused call returned=%v err=%v", setting, groups, returned, err), nil)
			return
		}
	}
	c.Class(fmt.Sprintf("ADMINGROUPS=%q unset=%v", setting, unset))
	c.Sample(map[string]interface{}{"ADMINGROUPS": setting, "unset": unset, "group_lists": len(lists), "first_lists": lists[:min(5, len(lists))]})
}

func c14Listing(c *fw.Case) {
	os.Setenv("OIDC_SERVER_URL", "http://127.0.0.1:1/never-contacted")
	defer os.Unsetenv("OIDC_SERVER_URL")
	// the name of the ROC-admin group can be configured through the environment: every second listing case does
	rocName := "AetherROCAdmin"
	if c.Index%2 == 1 {
		rocName = "SuperAdmin"
		os.Setenv("AetherROCAdmin", rocName)
		defer os.Unsetenv("AetherROCAdmin")
	}
	c.Distinct("roc_admin_group", rocName)
	targets := []string{"t1", "t2", "EnterpriseA", "grp"}
	w, err := world.New(world.Options{Targets: targets, NoControllers: true})
	if err != nil {
		c.Inconclusive("world: " + err.Error())
		return
	}
	defer w.Close()
	alphabet := []string{"t1", "t2", "EnterpriseA", "grp", "t", "t11", "Enterprise", "AetherROCAdmin", "AetherROC", "", "T1", "SuperAdmin", "Super", " "}
	r := c.Rng.Fork("listing")
	for i := 0; i < 400; i++ {
		var groups []string
		for k := r.Intn(4); k > 0; k-- {
			groups = append(groups, alphabet[r.Intn(len(alphabet))])
		}
		pairs := []string{"name", "alice"}
		if len(groups) > 0 {
			pairs = append(pairs, "groups", strings.Join(groups, ";"))
		}
		ctx := metadata.NewIncomingContext(context.Background(), metadata.Pairs(pairs...))
		enc := gnmi.Encoding_PROTO
		resp, err := w.Cur().Server.Get(ctx, &gnmi.GetRequest{Path: []*gnmi.Path{{Target: "*"}}, Encoding: enc})
		if err != nil {
			c.Violate("rbac", "rbac/listing-error", err.Error(), nil)
			return
		}
		var got []string
		for _, n := range resp.Notification {
			for _, u := range n.Update {
				for _, e := range u.GetVal().GetLeaflistVal().GetElement() {
					got = append(got, e.GetStringVal())
				}
			}
		}
		sort.Strings(got)
		var want []string
		roc := false
		for _, g := range groups {
			if g == rocName {
				roc = true
			}
		}
		for _, t := range targets {
			in := roc
			for _, g := range groups {
				if g == t {
					in = true
				}
			}
			if in {
				want = append(want, t)
			}
		}
		sort.Strings(want)
		c.Count("listings", 1)
		if fmt.Sprint(got) != fmt.Sprint(want) {
			c.Violate("rbac", "rbac/listing", fmt.Sprintf("caller groups %q were shown targets %v, expected %v", groups, got, want), nil)
			return
		}
	}
	c.Class("listing")
}

func min(a, b int) int {
	if a < b {
		return a
	}
	return b
}

func init() {
	alphabet := []string{"AetherROCAdmin", "EnterpriseAdmin", "Admin", "AetherROC", "AetherROCAdminX", "aetherrocadmin", "", "mixedGroup", "EnterpriseAdmin Observers", "x,AetherROCAdmin"}
	var lists [][]string
	lists = append(lists, nil) // identity without any groups claim
	for _, a := range alphabet {
		lists = append(lists, []string{a})
	}
	for _, a := range alphabet {
		for _, b := range alphabet {
			lists = append(lists, []string{a, b})
		}
	}
	for _, a := range alphabet {
		for _, b := range alphabet {
			for _, d := range alphabet {
				lists = append(lists, []string{a, b, d})
			}
		}
	}
	type setting struct {
		v     string
		unset bool
	}
	settings := []setting{{"", true}, {"AetherROCAdmin", false}, {"AetherROCAdmin,EnterpriseAdmin", false}, {"Admin,AetherROCAdmin", false}, {"mixedGroup,AetherROCAdmin,EnterpriseAdmin", false}, {"A", false}}
	const chunk = 101
	nChunks := (len(lists) + chunk - 1) / chunk
	fw.Register(&fw.Check{ID: "C14", Level: "exploration", Exhaustive: true,
		Technique:   "runtime monitoring, exhaustive small scope: every caller group list of length 0..3 over a 10-name alphabet (admin names, substrings, superstrings, case variants, empty, names containing a blank or comma) x 6 ADMINGROUPS settings through the real Set handler; exact set-membership oracle; log length as witness; listing of all targets under authorization vs reference filter (default and configured ROC-admin group name)",
		Rule:        "1111 group lists (length 0..3 over a 10-name alphabet incl. names containing a blank or a comma) x 6 settings = 6666 authenticated Sets (each case = one setting x 101 lists) + 2 listing cases of 400 PRNG group lists; distinct_nontrivial = distinct (setting) classes + listing",
		Assumptions: []string{"identity metadata is what the onos-lib-go authentication interceptor leaves in the incoming context: name, email, groups joined by ';'", "ADMINGROUPS is a comma-separated list"},
		Floors:      map[string]int64{"authenticated_sets": 6600, "sets_expected_allowed": 900, "listings": 700},
		Cases:       func(tier string) int { return len(settings)*nChunks + 2 },
		Run: func(c *fw.Case) {
			if c.Index >= len(settings)*nChunks {
				c14Listing(c)
				return
			}
			s := settings[c.Index/nChunks]
			k := c.Index % nChunks
			hi := (k + 1) * chunk
			if hi > len(lists) {
				hi = len(lists)
			}
			c14Run(c, s.v, s.unset, lists[k*chunk:hi])
		}})
}

// ---------------------------------------------------------------- C13

type c13Op struct {
	kind   string // update replace delete
	target string // per-path target ("" = none)
	elems  refmodel.Path
	val    refmodel.Val
	bad    string // why this operation must be refused ("" = valid)
}

func c13Run(c *fw.Case, n int) {
	limits := []int{0, 0, 1, 2, 5, 50}
	limit := limits[c.Index%len(limits)]
	w, err := world.New(world.Options{Targets: []string{"t1", "t2"}, NoControllers: true, SetSizeLimit: limit, ExtraTargets: map[string][2]string{"noplugin": {"nosuchmodel", "9.9.9"}}})
	if err != nil {
		c.Inconclusive("world: " + err.Error())
		return
	}
	defer w.Close()
	r := c.Rng.Fork("c13")
	validLeaves := []string{"/foo", "/bar", "/a/b", "/a/bc", "/a/d/e", "/cont/leaf2", "/cont-x/leaf", "/c/l[k=x]/v", "/c/l[k=xy]/v", "/c/l[k=x]/sub/x", "/c/m[k1=1][k2=2]/v", "/c/l[k=x]/k", "/c/l[k=x]/in[id=1]/w"}
	validDeletes := []string{"/foo", "/a", "/a/b", "/c/l[k=x]", "/c/l", "/c", "/cont", "/c/m[k1=1][k2=2]", "/c/l[k=x]/k", "/c/l[k=x]/in[id=1]"}
	snapshot := func() string {
		var sb strings.Builder
		txs, _ := w.Cur().RawTxs.List(context.Background())
		fmt.Fprintf(&sb, "log=%d;", len(txs))
		cfgs, _ := w.Cur().RawCf.List(context.Background())
		for _, cf := range cfgs {
			fmt.Fprintf(&sb, "%s@%d:%d;", cf.ID, cf.Version, len(cf.Values))
		}
		return sb.String()
	}
	var samples []string
	for i := 0; i < n; i++ {
		// build the operations
		usePrefixTarget := r.Chance(1, 2)
		prefixTarget := ""
		if usePrefixTarget {
			prefixTarget = []string{"t1", "t2"}[r.Intn(2)]
		}
		prefixLen := 0
		var ops []c13Op
		nOps := 1 + r.Intn(4)
		badAt := -1
		badKind := ""
		if r.Chance(3, 5) {
			badAt = r.Intn(nOps)
			badKind = []string{"unknown-target", "no-plugin", "non-model-path", "read-only-path", "key-mismatch", "bad-key-chars", "key-equals-other-index", "key-equals-other-index", "non-leaf-path", "non-leaf-path"}[r.Intn(10)]
		}
		var commonPrefix refmodel.Path
		if r.Chance(1, 3) {
			// all paths of the request share a prefix sent in the prefix message
			commonPrefix = refmodel.MustParse([]string{"/a", "/c", "/c/l[k=x]"}[r.Intn(3)])
			prefixLen = len(commonPrefix)
		}
		for k := 0; k < nOps; k++ {
			op := c13Op{kind: []string{"update", "update", "replace", "delete"}[r.Intn(4)]}
			pool := validLeaves
			if op.kind == "delete" {
				pool = validDeletes
			}
			var full refmodel.Path
			for tries := 0; tries < 50; tries++ {
				full = refmodel.MustParse(pool[r.Intn(len(pool))])
				if prefixLen == 0 || (len(full) > prefixLen && refmodel.Path(full[:prefixLen]).Equal(commonPrefix)) {
					break
				}
				full = nil
			}
			if full == nil {
				full = refmodel.Concat(commonPrefix, refmodel.MustParse(map[string]string{"/a": "/b", "/c": "/l[k=x]/v", "/c/l[k=x]": "/v"}[commonPrefix.String()]))
				op.kind = "update"
			}
			op.elems = full
			op.val = refmodel.S(fmt.Sprintf("v%d_%d", i, k))
			if n := w.Schema.NodeOf(full); n != nil && n.IsKeyLeaf() {
				op.val = refmodel.S("x")
			}
			if !usePrefixTarget || r.Chance(1, 3) {
				op.target = []string{"t1", "t2"}[r.Intn(2)]
			}
			if k == badAt {
				op.bad = badKind
				switch badKind {
				case "unknown-target":
					if usePrefixTarget {
						op.bad = "" // the prefix target overrides the per-path one: the bogus target is ignored
					}
					op.target = "ghost"
				case "no-plugin":
					if usePrefixTarget {
						op.bad = ""
					}
					op.target = "noplugin"
				case "non-model-path":
					op.elems = refmodel.Concat(commonPrefix, refmodel.MustParse("/nosuch/leaf"))
				case "read-only-path":
					if prefixLen > 0 {
						op.elems = refmodel.Concat(commonPrefix, refmodel.MustParse("/nosuch"))
						op.bad = "non-model-path"
					} else {
						op.elems = refmodel.MustParse("/state/counter")
					}
				case "key-mismatch":
					if prefixLen > 0 && commonPrefix.String() != "/c" {
						op.bad = ""
					} else {
						op.kind = "update"
						op.elems = refmodel.MustParse("/c/l[k=x]/k")
						op.val = refmodel.S("y")
					}
				case "key-equals-other-index":
					// a key leaf whose value contradicts its own key but equals another index of the path
					if prefixLen > 0 && commonPrefix.String() != "/c" {
						op.bad = ""
					} else {
						op.kind = "update"
						if r.Chance(1, 2) {
							op.elems = refmodel.MustParse("/c/m[k1=1][k2=2]/k1")
							op.val = refmodel.S("2")
						} else {
							op.elems = refmodel.MustParse("/c/m[k1=7][k2=9]/k2")
							op.val = refmodel.S("7")
						}
					}
				case "non-leaf-path":
					// a scalar written to a container or a list entry: the path is a proper prefix, at an element
					// boundary, of writable leaves, but is not a writable path itself
					op.kind = []string{"update", "replace"}[r.Intn(2)]
					switch commonPrefix.String() {
					case "/a":
						op.elems = refmodel.MustParse([]string{"/a", "/a/d"}[r.Intn(2)])
					case "/c":
						op.elems = refmodel.MustParse([]string{"/c", "/c/l[k=x]", "/c/m[k1=1][k2=2]", "/c/l[k=x]/sub"}[r.Intn(4)])
					case "/c/l[k=x]":
						op.elems = refmodel.MustParse([]string{"/c/l[k=x]", "/c/l[k=x]/sub", "/c/l[k=x]/in[id=1]"}[r.Intn(3)])
					default:
						op.elems = refmodel.MustParse([]string{"/a", "/a/d", "/cont", "/c/l[k=x]", "/c/l[k=x]/sub", "/c/m[k1=1][k2=2]", "/ab", "/t"}[r.Intn(8)])
					}
				case "bad-key-chars":
					if prefixLen > 0 && commonPrefix.String() != "/c" {
						op.bad = ""
					} else {
						op.kind = "update"
						op.elems = refmodel.MustParse("/c/l[k=x y]/v")
					}
				}
			}
			ops = append(ops, op)
		}
		// requests without any target at all for some operation are refused
		req := &gnmi.SetRequest{}
		if usePrefixTarget || prefixLen > 0 {
			req.Prefix = commonPrefix.ToGNMI(prefixTarget)
		}
		wantRefused := ""
		type eff struct {
			target, path string
			del          bool
			val          refmodel.Val
		}
		want := map[string]eff{}
		nTargets := map[string]bool{}
		perTargetOps := map[string]int{}
		nDeletes := map[string]int{}
		updated := map[string]bool{}
		order := []string{"delete", "replace", "update"}
		for _, kind := range order {
			for _, op := range ops {
				if op.kind != kind {
					continue
				}
				rel := op.elems[prefixLen:]
				gp := rel.ToGNMI(op.target)
				switch op.kind {
				case "delete":
					req.Delete = append(req.Delete, gp)
				case "replace":
					req.Replace = append(req.Replace, &gnmi.Update{Path: gp, Val: op.val.ToGNMI()})
				default:
					req.Update = append(req.Update, &gnmi.Update{Path: gp, Val: op.val.ToGNMI()})
				}
				tgt := op.target
				if prefixTarget != "" {
					tgt = prefixTarget
				}
				if op.bad != "" && wantRefused == "" {
					wantRefused = op.bad
				}
				p := op.elems
				if nd := w.Schema.NodeOf(p); op.kind == "delete" && nd != nil && nd.IsKeyLeaf() {
					p = p.Parent()
				}
				key := tgt + " " + p.String()
				// deletes are applied before updates: an update of a path wins over its delete in the same request
				// (the loop visits deletes first, then replaces, then updates)
				if op.kind == "delete" {
					want[key] = eff{tgt, p.String(), true, ""}
					nDeletes[tgt]++
				} else {
					want[key] = eff{tgt, p.String(), false, op.val}
					updated[key] = true
				}
				nTargets[tgt] = true
			}
		}
		for _, e := range want {
			perTargetOps[e.target]++
		}
		// target type / version overrides: they choose the model of a target that exists, they do not make an unknown
		// target known; an override to a model for which no plugin is loaded makes the request unacceptable
		{
			ov := &configapi.TargetVersionOverrides{Overrides: map[string]*configapi.TargetTypeVersion{}}
			var known []string
			for t := range nTargets {
				if t == "t1" || t == "t2" {
					known = append(known, t)
				}
			}
			sort.Strings(known)
			switch {
			case wantRefused == "unknown-target" && r.Chance(1, 2):
				ov.Overrides["ghost"] = &configapi.TargetTypeVersion{TargetType: "synth", TargetVersion: "1.0.0"}
				c.Count("requests_with_override_for_unknown_target", 1)
			case wantRefused == "" && len(known) > 0 && r.Chance(1, 10):
				ov.Overrides[known[r.Intn(len(known))]] = &configapi.TargetTypeVersion{TargetType: "nosuchmodel", TargetVersion: "9.9.9"}
				wantRefused = "override-to-unknown-model"
			case len(known) > 0 && r.Chance(1, 6):
				ov.Overrides[known[r.Intn(len(known))]] = &configapi.TargetTypeVersion{TargetType: "synth", TargetVersion: "1.0.0"}
			}
			if len(ov.Overrides) > 0 {
				if b, err := ov.Marshal(); err == nil {
					req.Extension = append(req.Extension, &gnmi_ext.Extension{Ext: &gnmi_ext.Extension_RegisteredExt{RegisteredExt: &gnmi_ext.RegisteredExtension{Id: configapi.TargetVersionOverridesID, Msg: b}}})
					c.Count("requests_with_version_overrides", 1)
				}
			}
		}
		if r.Chance(1, 12) {
			req.Extension = append(req.Extension, &gnmi_ext.Extension{Ext: &gnmi_ext.Extension_RegisteredExt{RegisteredExt: &gnmi_ext.RegisteredExtension{Id: configapi.TransactionStrategyExtensionID, Msg: []byte{0xff, 0xff, 0xff}}}})
			if wantRefused == "" {
				wantRefused = "bad-extension"
			}
		}
		if r.Chance(1, 25) {
			req.Delete, req.Replace, req.Update = nil, nil, nil
			wantRefused = "no-operations"
		}
		unclear := false
		if wantRefused == "" && limit > 0 {
			if len(nTargets) != 1 {
				wantRefused = "more-than-one-target-under-limit"
			}
			for t, k := range perTargetOps {
				// k = distinct paths changed; all = every delete plus every distinct updated path. The property
				// speaks of "operations": a request is clearly over the limit when even its distinct paths
				// exceed it, clearly within when all its operations fit; in between no verdict is demanded.
				all := nDeletes[t]
				for key := range updated {
					if strings.HasPrefix(key, t+" ") {
						all++
					}
				}
				if k > limit {
					wantRefused = "more-operations-than-limit"
				} else if all > limit {
					unclear = true
				}
			}
		}
		before := snapshot()
		tx, err, returned := trySet(w, context.Background(), req)
		c.Count("set_requests", 1)
		if i < 4 && c.Index%24 == 0 {
			samples = append(samples, fmt.Sprintf("limit=%d must-refuse=%q logged=%v answer=%v request=%v", limit, wantRefused, tx != nil, err, req))
			c.Sample(samples)
		}
		if unclear && wantRefused == "" {
			c.Count("requests_at_the_limit_without_verdict", 1)
			continue
		}
		c.Distinct("request_shape", fmt.Sprintf("refuse=%s prefixTarget=%v prefixElems=%d limit=%d", wantRefused, usePrefixTarget, prefixLen, limit))
		if wantRefused != "" {
			c.Count("requests_that_must_be_refused", 1)
			if tx != nil || !returned || err == nil || snapshot() != before {
				c.Violate("refusal", "refusal/"+wantRefused, fmt.Sprintf("request %v must be refused (%s) and change nothing: transaction logged=%v returned=%v err=%v state %s -> %s", req, wantRefused, tx != nil, returned, err, before, snapshot()), nil)
				return
			}
			continue
		}
		c.Count("requests_that_must_be_accepted", 1)
		if tx == nil {
			c.Violate("refusal", "refusal/valid-request-refused/"+engine.ErrClass(err), fmt.Sprintf("valid request %v was refused: %v", req, err), nil)
			return
		}
		got := map[string]eff{}
		for tgt, pvs := range tx.GetChange().GetValues() {
			for path, pv := range pvs.Values {
				pp, perr := refmodel.Parse(path)
				if perr != nil || pv == nil {
					c.Violate("addressing", "addressing/unparsable-path", fmt.Sprintf("logged path %q", path), nil)
					return
				}
				e := eff{string(tgt), pp.String(), pv.Deleted, ""}
				if !pv.Deleted {
					e.val = engine.ValOfAPI(&pv.Value)
				}
				got[string(tgt)+" "+pp.String()] = e
			}
		}
		if fmt.Sprint(got) != fmt.Sprint(want) {
			c.Violate("addressing", "addressing/operations-differ", fmt.Sprintf("request %v\n logged %v\n the addressing rules give %v", req, got, want), nil)
			return
		}
	}
	c.Class(fmt.Sprintf("limit=%d", limit))
}

func init() {
	fw.Register(&fw.Check{ID: "C13", Level: "exploration",
		Technique:   "runtime monitoring: PRNG Set requests mixing valid and one invalid operation (unknown target - with or without a version override naming it -, no plugin, override to an unknown model, non-model / read-only / non-leaf path, key-leaf contradictions, illegal key characters, malformed extension, no operations, size limit) through the real handler; refusal oracle = error returned, log length and configuration versions unchanged; acceptance oracle = logged (target, path, op, value) set vs reference addressing rules (prefix target wins, prefix elems + path elems, key-leaf delete addresses the entry, deletes before updates)",
		Rule:        "each case = 60 requests under one GNMI_SET_SIZE_LIMIT in {0,1,2,5,50}; invalid kinds: unknown target, target without plugin, non-model path, read-only path, key leaf contradicting its key (or equal to another index), a scalar written to a container / list-entry path, illegal key characters, malformed extension, no operations, limit exceeded; distinct_nontrivial = distinct request shapes (refusal reason x prefix target x prefix elems x limit)",
		Assumptions: []string{"handlers are called without controllers: an accepted request is recognised by its logged transaction and released by cancelling its context"},
		DistinctSet: "request_shape", CaseTimeout: 300e9,
		Floors: map[string]int64{"set_requests": 5000, "requests_that_must_be_refused": 2000, "requests_that_must_be_accepted": 1000},
		Cases: func(tier string) int {
			if tier == "thorough" {
				return 5000
			}
			return 96
		},
		Run: func(c *fw.Case) { c13Run(c, 60) }})
}
