//go:build verif

package props

// Coverage-guided stage of C12 (Go native fuzzing, `go test -fuzz`): the seed corpus is produced by the structured
// hostile generator, the engine mutates the wire bytes guided by the coverage of the real handlers, every input that
// still decodes is fed to the handler of its kind with the real controllers running. A panic in the handler's
// goroutine fails the fuzz target, a panic in any other goroutine of the process (a controller reconciling what the
// request left in the stores) kills the worker; both leave the input in testdata/fuzz/FuzzRequests/. The C12 check
// runs this as a child process and reads its output (props/c12fuzz.go).

import (
	"context"
	"os"
	"strconv"
	"sync"
	"testing"
	"time"

	adminapi "github.com/onosproject/onos-api/go/onos/config/admin"
	"github.com/openconfig/gnmi/proto/gnmi"
	"google.golang.org/grpc/metadata"
	"google.golang.org/protobuf/proto"

	"verif/fw"
	"verif/world"
)

var (
	fuzzMu    sync.Mutex
	fuzzWorld *world.World
	fuzzInc   *world.Incarnation
	fuzzExecs int
)

// fuzzEnv returns a populated world, rebuilt every 1500 executions so that the transaction log stays short
func fuzzEnv(t *testing.T) *world.Incarnation {
	fuzzMu.Lock()
	defer fuzzMu.Unlock()
	fuzzExecs++
	if fuzzWorld != nil && fuzzExecs%1500 != 0 {
		return fuzzInc
	}
	if fuzzWorld != nil {
		fuzzWorld.Close()
	}
	_ = os.Setenv("POD_ID", "onos-config-0")
	w, err := world.New(world.Options{Targets: []string{"t1", "t2"}, ExtraTargets: map[string][2]string{"noplugin": {"nosuchmodel", "9.9.9"}}})
	if err != nil {
		t.Skip("world: " + err.Error())
	}
	w.Connect("t1")
	inc := w.Cur()
	ctx, cancel := context.WithTimeout(context.Background(), 20*time.Second)
	for _, ops := range [][2]string{{"/foo", "v"}, {"/a/b", "w"}, {"/c/l[k=x]/v", "x"}} {
		_, _ = inc.Server.Set(ctx, engineSet("t1", ops[0], ops[1]))
	}
	cancel()
	fuzzWorld, fuzzInc = w, inc
	return inc
}

func FuzzRequests(f *testing.F) {
	seed := uint64(1)
	if s, err := strconv.ParseUint(os.Getenv("VERIF_SEED"), 10, 64); err == nil {
		seed = s
	}
	r := fw.NewRng(fw.Derive(seed, "C12-fuzz-corpus"))
	n := 0
	for i := 0; n < 240 && i < 2000; i++ {
		var m proto.Message
		var kind byte
		switch i % 6 {
		case 0, 1, 2:
			m, kind = hSetRequest(r), 0
		case 3:
			m, kind = hGetRequest(r), 1
		case 4:
			m, kind = hSubscribeRequest(r), 2
		case 5:
			if ls := hLeafSelection(r); ls.ChangeContext != nil {
				m, kind = ls.ChangeContext, 4
			} else {
				m, kind = &gnmi.CapabilityRequest{Extension: hExtensions(r)}, 3
			}
		}
		if _, wire := wireRoundTrip(m, nil); wire != nil {
			f.Add(kind, byte(i), wire)
			n++
		}
	}
	f.Fuzz(func(t *testing.T, kind byte, aux byte, data []byte) {
		inc := fuzzEnv(t)
		ctx, cancel := context.WithTimeout(context.Background(), 300*time.Millisecond)
		defer cancel()
		switch aux % 4 {
		case 0:
			ctx = metadata.NewIncomingContext(ctx, metadata.Pairs("name", "alice", "groups", "AetherROCAdmin;t1", "preferred_username", "alice"))
		case 1:
			ctx = metadata.NewIncomingContext(ctx, metadata.Pairs("name", "bob"))
		}
		switch kind % 5 {
		case 0:
			req := &gnmi.SetRequest{}
			if proto.Unmarshal(data, req) != nil {
				return
			}
			_, _ = inc.Server.Set(ctx, req)
		case 1:
			req := &gnmi.GetRequest{}
			if proto.Unmarshal(data, req) != nil {
				return
			}
			_, _ = inc.Server.Get(ctx, req)
		case 2:
			req := &gnmi.SubscribeRequest{}
			if proto.Unmarshal(data, req) != nil {
				return
			}
			_ = inc.Server.Subscribe(subStream{&fakeStream{ctx: ctx, in: []*gnmi.SubscribeRequest{req}}})
		case 3:
			req := &gnmi.CapabilityRequest{}
			if proto.Unmarshal(data, req) != nil {
				return
			}
			_, _ = inc.Server.Capabilities(ctx, req)
		case 4:
			cc := &gnmi.SetRequest{}
			if proto.Unmarshal(data, cc) != nil {
				return
			}
			targets := []string{"t1", "t2", "noplugin", "unknown", ""}
			paths := []string{"/c/l[k=x]/v", "/foo", "/c/l", "", "/nosuch", "/c/m[k1=1][k2=2]/v"}
			req := &adminapi.LeafSelectionQueryRequest{Target: targets[int(aux)%len(targets)], Type: "synth", Version: "1.0.0",
				SelectionPath: paths[int(aux/5)%len(paths)], ChangeContext: cc}
			_, _ = inc.Admin.LeafSelectionQuery(ctx, req)
		}
	})
}
