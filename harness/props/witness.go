package props

import (
	"google.golang.org/grpc/codes"

	"verif/engine"
	"verif/refmodel"
)

func up(t, p, v string) refmodel.Op {
	return refmodel.Op{Target: t, P: refmodel.MustParse(p), V: refmodel.S(v)}
}
func del(t, p string) refmodel.Op { return refmodel.Op{Target: t, Del: true, P: refmodel.MustParse(p)} }
func set(ops ...refmodel.Op) engine.Step {
	return engine.Step{Kind: "set", Ops: ops}
}
func setSync(ops ...refmodel.Op) engine.Step { return engine.Step{Kind: "set", Ops: ops, Sync: true} }
func setNoWait(ops ...refmodel.Op) engine.Step {
	return engine.Step{Kind: "set", Ops: ops, NoWait: true}
}
func env(kind, t string) engine.Step { return engine.Step{Kind: kind, Target: t} }
func rbLatest() engine.Step          { return engine.Step{Kind: "rollback", RbMode: "latest"} }
func rbIndex(i int) engine.Step      { return engine.Step{Kind: "rollback", RbMode: "index", RbArg: i} }

// Witness is a hand-written scenario that every run of the checks listed in Props replays first.
// Each one is the concrete history with which a defect of the unchanged tree was demonstrated
// (see known_findings.json, status "fixed"); they must pass, and they catch the defect if it returns.
type Witness struct {
	Name  string
	Props []string
	Steps []engine.Step
}

var witnesses = []Witness{
	{"abort-while-predecessor-unapplied", []string{"C01", "C09", "C11", "C07", "C04"}, []engine.Step{
		set(up("t1", "/foo", "v1")), set(up("t1", "/bar", "POISON")), env("connect", "t1"), set(up("t1", "/goo", "v3")),
	}},
	{"late-first-connection-after-abort", []string{"C04", "C09"}, []engine.Step{
		set(del("t1", "/a")), set(up("t1", "/foo", "POISON")), set(up("t1", "/foo", "v3")), set(up("t1", "/bar", "v4")), set(up("t1", "/a/b", "v5")),
		env("connect", "t1"),
	}},
	{"late-connection-after-rollback-to-empty", []string{"C04", "C09", "C06"}, []engine.Step{
		set(up("t1", "/foo", "v1"), up("t1", "/c/m[k1=1][k2=2]/v", "v1")), {Kind: "rollback", RbMode: "latest", NoWait: true}, env("connect", "t1"),
	}},
	{"resync-must-not-push-refused-or-unapplied", []string{"C04", "C11", "C02"}, []engine.Step{
		env("connect", "t1"), set(up("t1", "/foo", "DEVREJECT")), set(up("t1", "/bar", "v2")), env("replace-conn", "t1"), set(up("t1", "/goo", "v3")), env("restart-empty", "t1"),
	}},
	{"resync-order-delete-then-recreate", []string{"C04", "C02", "C03"}, []engine.Step{
		env("connect", "t1"), set(up("t1", "/a/b", "v1"), up("t1", "/a/c", "v1")), set(del("t1", "/a")), set(up("t1", "/a/b", "v3")), set(up("t1", "/foo", "v4")),
		env("restart-empty", "t1"), env("connect", "t1"),
	}},
	{"recreate-under-deleted-ancestor-survives-next-set", []string{"C03", "C06", "C05"}, []engine.Step{
		env("connect", "t1"), set(up("t1", "/a/b", "v1")), set(del("t1", "/a")), set(up("t1", "/a/b", "v2")), set(up("t1", "/foo", "x")), set(up("t1", "/bar", "y")),
	}},
	{"rollback-of-subtree-delete", []string{"C06", "C03", "C05"}, []engine.Step{
		env("connect", "t1"), set(up("t1", "/a/b", "v1"), up("t1", "/a/c", "v1"), up("t1", "/foo", "f")), set(del("t1", "/a")), rbLatest(),
		set(up("t1", "/c/l[k=x]/v", "v"), up("t1", "/c/l[k=x]/sub/x", "s"), up("t1", "/c/l[k=xy]/v", "w")), set(del("t1", "/c/l[k=x]")), rbLatest(),
	}},
	{"set-right-after-failed-rollback-request", []string{"C09", "C08", "C06"}, []engine.Step{
		env("connect", "t1"), set(up("t1", "/foo", "v1")), {Kind: "rollback", RbMode: "nonexistent", NoWait: true}, set(up("t1", "/bar", "v2")),
		rbIndex(2), set(up("t1", "/goo", "v3")),
	}},
	{"device-refusal-on-one-target-of-two", []string{"C11", "C01", "C09", "C04"}, []engine.Step{
		env("connect", "t1"), env("connect", "t2"), set(up("t2", "/foo", "DEVREJECT"), up("t1", "/a/c", "v1")), set(up("t1", "/bar", "v2")), set(up("t2", "/bar", "v3")),
		set(up("t1", "/foo", "DEVREJECT"), up("t2", "/a/c", "v4")), set(up("t1", "/goo", "v5"), up("t2", "/goo", "v5")),
	}},
	{"transient-device-errors-are-retried", []string{"C11", "C04"}, []engine.Step{
		env("connect", "t1"), {Kind: "dev-fault", Target: "t1", Codes: []codes.Code{codes.Unavailable, codes.DeadlineExceeded, codes.Canceled}},
		setSync(up("t1", "/foo", "v1")), set(up("t1", "/bar", "v2")),
	}},
	{"sibling-names-sharing-a-prefix", []string{"C03", "C05", "C04"}, []engine.Step{
		env("connect", "t1"), set(up("t1", "/a/b", "1"), up("t1", "/a/bc", "2"), up("t1", "/cont/leaf2", "3"), up("t1", "/cont/leaf2a", "4"), up("t1", "/cont-x/leaf", "5")),
		set(del("t1", "/a/b")), set(del("t1", "/cont/leaf2")), set(up("t1", "/cont/leaf2", "6")), set(del("t1", "/cont")),
		set(up("t1", "/c/l[k=x]/v", "7"), up("t1", "/c/l[k=xy]/v", "8"), up("t1", "/c/m[k1=1][k2=2]/v", "9"), up("t1", "/c/m[k1=10][k2=2]/v", "10")),
		set(del("t1", "/c/l[k=x]")), set(del("t1", "/c/m[k1=1][k2=2]")),
	}},
	{"late-apply-of-subtree-delete-then-resync", []string{"C04", "C02"}, []engine.Step{
		set(up("t1", "/c/l[k=x]/v", "v1")), set(del("t1", "/c")),
		set(del("t1", "/c/l[k=x]/sub"), del("t1", "/c/l[k=x]/in[id=1]"), del("t1", "/c/m[k1=1][k2=2]"), del("t1", "/c/l[k=y]"), up("t1", "/foo", "v3")),
		env("connect", "t1"), setSync(up("t1", "/goo", "v5")), env("replace-conn", "t1"),
	}},
	{"overlapping-sets-are-answered", []string{"C08", "C02", "C09"}, []engine.Step{
		env("connect", "t1"), setNoWait(up("t1", "/foo", "v1")), setNoWait(up("t1", "/bar", "v2")), setNoWait(up("t1", "/goo", "v3")), set(up("t1", "/foo", "v4")),
	}},
	{"multi-target-validation-failure-is-atomic", []string{"C01", "C05"}, []engine.Step{
		env("connect", "t1"), env("connect", "t2"), set(up("t1", "/foo", "v1"), up("t2", "/foo", "v1")), set(up("t1", "/bar", "v2"), up("t2", "/bar", "POISON")),
		set(up("t1", "/a/b", "EQ1"), up("t2", "/goo", "g")), set(up("t1", "/a/c", "EQ1"), up("t2", "/goo", "h")), set(up("t1", "/goo", "v5"), up("t2", "/a/b", "v5")),
	}},
}

func witnessesFor(prop string) []Witness {
	var out []Witness
	for _, w := range witnesses {
		for _, p := range w.Props {
			if p == prop {
				out = append(out, w)
			}
		}
	}
	return out
}
