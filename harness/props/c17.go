package props

import (
	"fmt"
	"math"
	"strings"
	"time"

	adminapi "github.com/onosproject/onos-api/go/onos/config/admin"
	configapi "github.com/onosproject/onos-api/go/onos/config/v2"
	configapiv3 "github.com/onosproject/onos-api/go/onos/config/v3"
	treev2 "github.com/onosproject/onos-config/pkg/utils/v2/tree"
	valuesv2 "github.com/onosproject/onos-config/pkg/utils/v2/values"
	valuesv3 "github.com/onosproject/onos-config/pkg/utils/v3/values"
	"github.com/openconfig/gnmi/proto/gnmi"

	"verif/engine"
	"verif/fw"
	"verif/refmodel"
	"verif/world"
)

type c17Value struct {
	leaf string // schema leaf under /t
	val  refmodel.Val
}

func c17Values(r *fw.Rng, n int) []c17Value {
	var out []c17Value
	ints := map[int][]int64{8: {0, 1, -1, 127, -128, 126, -127}, 16: {0, 32767, -32768, 255, 256}, 32: {0, 1, -1, math.MaxInt32, math.MinInt32, math.MaxInt32 - 1, 65536},
		64: {0, -1, math.MaxInt64, math.MinInt64, math.MaxInt64 - 1, math.MinInt64 + 1, 1 << 31, 1 << 32, -(1 << 32), 1<<53 + 1, 1<<53 - 1}}
	uints := map[int][]uint64{8: {0, 1, 255, 254}, 16: {0, 65535, 256}, 32: {0, 1, math.MaxUint32, math.MaxUint32 - 1, 1 << 31},
		64: {0, math.MaxUint64, math.MaxUint64 - 1, 1 << 63, 1 << 32, 1<<53 + 1, 1 << 31}}
	for w, vs := range ints {
		for _, v := range vs {
			out = append(out, c17Value{fmt.Sprintf("i%d", w), refmodel.I(v)})
		}
	}
	for w, vs := range uints {
		for _, v := range vs {
			out = append(out, c17Value{fmt.Sprintf("u%d", w), refmodel.U(v)})
		}
	}
	for _, s := range []string{"", "x", "hello world", "ünïcödé ✓", strings.Repeat("long", 300), "with \"quotes\" and \\ backslash", "a,b;c", "line\nbreak", "tab\t", "<&>"} {
		out = append(out, c17Value{"flt-skip-string", refmodel.S(s)})
	}
	out = append(out, c17Value{"bool", "b:true"}, c17Value{"bool", "b:false"})
	for _, b := range []string{"", "00", "ff", "00ff10", strings.Repeat("ab", 100), "1d", "0a"} {
		out = append(out, c17Value{"bytes", refmodel.Val("y:" + b)})
	}
	for _, d := range []int64{0, 1, -1, 1234, -1234, 5, -5, 999, 1000, -1000, math.MaxInt64, math.MinInt64 + 1, 123456789012} {
		out = append(out, c17Value{"dec", refmodel.Val(fmt.Sprintf("d:%d:3", d))})
	}
	for _, d := range []string{"d:15:1", "d:-35:1", "d:7:0", "d:123456:5", "d:1:18"} {
		out = append(out, c17Value{"dec", refmodel.Val(d)})
	}
	for _, f := range []float32{0, 1, -1, 1.5, -2.25, 3.1415927, math.MaxFloat32, -math.MaxFloat32, math.SmallestNonzeroFloat32, 1e-10, 123456.79, 16777217} {
		out = append(out, c17Value{"flt", refmodel.Val(fmt.Sprintf("f:%08x", math.Float32bits(f)))})
	}
	// leaf-lists of 1..5 elements
	ll := func(leaf string, elems ...string) {
		out = append(out, c17Value{leaf, refmodel.Val("l:" + strings.Join(elems, "\x1f"))})
	}
	ll("ll-str", "s:a")
	ll("ll-str", "s:a", "s:b", "s:c")
	ll("ll-str", "s:", "s:x")
	ll("ll-str", "s:with space", "s:ünï", "s:c,d")
	ll("ll-str", "s:a\x1db")
	ll("ll-i32", "i:0", "i:-1", "i:2147483647", "i:-2147483648")
	ll("ll-i64", "i:9223372036854775807", "i:-9223372036854775808", "i:4294967296")
	ll("ll-u16", "u:0", "u:65535")
	ll("ll-u64", "u:18446744073709551615", "u:0", "u:4294967296", "u:9007199254740993")
	ll("ll-bool", "b:true", "b:false", "b:true")
	ll("ll-bytes", "y:00", "y:ff10")
	ll("ll-bytes", "y:", "y:01")
	ll("ll-dec", "d:125:2", "d:-5:2", "d:100:2")
	// a client is free to send a precision other than the model's fraction-digits: 1.5 as (15, 1)
	ll("ll-dec", "d:15:1", "d:25:1", "d:-35:1")
	ll("ll-dec", "d:1500:3", "d:2:3")
	ll("ll-dec", "d:7:0")
	ll("ll-flt", "f:3fc00000", "f:c0100000")
	for i := 0; i < n; i++ {
		switch r.Intn(6) {
		case 0:
			out = append(out, c17Value{"i64", refmodel.I(int64(r.U64()))})
		case 1:
			out = append(out, c17Value{"u64", refmodel.U(r.U64())})
		case 2:
			out = append(out, c17Value{"i32", refmodel.I(int64(int32(r.U64())))})
		case 3:
			out = append(out, c17Value{"dec", refmodel.Val(fmt.Sprintf("d:%d:3", int64(r.U64()>>uint(r.Intn(60)))-int64(r.Intn(2000))))})
		case 4:
			f := math.Float32frombits(uint32(r.U64()))
			if !math.IsNaN(float64(f)) && !math.IsInf(float64(f), 0) {
				out = append(out, c17Value{"flt", refmodel.Val(fmt.Sprintf("f:%08x", math.Float32bits(f)))})
			}
		case 5:
			b := make([]byte, r.Intn(12))
			for k := range b {
				b[k] = byte(r.U64())
			}
			out = append(out, c17Value{"bytes", refmodel.Val(fmt.Sprintf("y:%x", b))})
		}
	}
	return out
}

func c17KnownKey(leaf string, v refmodel.Val, what string) string {
	s := string(v)
	switch {
	case (leaf == "dec" || leaf == "ll-dec") && what == "json" && negativeBelowOne(s):
		return "value/json/negative-decimal-below-one-loses-sign"
	case (leaf == "flt" || leaf == "ll-flt") && what == "json":
		return "value/json/float-rendered-with-six-decimals"
	case leaf == "ll-str" && strings.Contains(s, "\x1d"):
		return "value/leaf-list/string-element-containing-0x1D-is-split"
	case leaf == "ll-bytes" && (strings.Contains(s, "y:\x1f") || strings.HasSuffix(s, "y:")):
		return "value/leaf-list/empty-bytes-element-dropped"
	}
	return ""
}

// negativeBelowOne: some element is a negative decimal whose integer part is zero
func negativeBelowOne(s string) bool {
	for _, e := range strings.Split(strings.TrimPrefix(s, "l:"), "\x1f") {
		var d int64
		var p int
		if _, err := fmt.Sscanf(e, "d:%d:%d", &d, &p); err == nil && d < 0 {
			lim := int64(1)
			for i := 0; i < p && lim < math.MaxInt64/10; i++ {
				lim *= 10
			}
			if -d < lim {
				return true
			}
		}
	}
	return false
}

func c17Pure(c *fw.Case, vals []c17Value) {
	s := refmodel.DefaultSchema()
	for _, cv := range vals {
		leaf := cv.leaf
		if leaf == "flt-skip-string" {
			leaf = "../foo"
		}
		var node *refmodel.Node
		path := "/t/" + leaf
		if leaf == "../foo" {
			path = "/foo"
		}
		node = s.Lookup(path)
		if node == nil {
			c.Inconclusive("no schema node " + path)
			return
		}
		c.Count("values", 1)
		c.Distinct("value_kind", fmt.Sprintf("%s/%d/%v", node.Type, node.Width, node.Kind == refmodel.LeafList))
		rw := &adminapi.ReadWritePath{Path: path}
		if node.Width > 0 {
			rw.TypeOpts = []uint64{uint64(node.Width)}
		}
		in := cv.val.ToGNMI()
		fail := func(what, key, format string, args ...interface{}) bool {
			if k := c17KnownKey(cv.leaf, cv.val, what); k != "" {
				key = k
			}
			c.Violate("value", key, fmt.Sprintf("%s = %s: ", path, cv.val.Pretty())+fmt.Sprintf(format, args...), nil)
			return strings.HasPrefix(key, "value/json/") || strings.HasPrefix(key, "value/leaf-list/")
		}
		// v2: gNMI -> stored -> gNMI
		tv, err := valuesv2.GnmiTypedValueToNativeType(in, rw)
		if err != nil {
			fail("store", "value/refused", "refused: %v", err)
			continue
		}
		if got := engine.ValOfAPI(tv); got != cv.val {
			if fail("store", "value/stored-differs", "stored as %s", got.Pretty()) {
				continue
			}
			return
		}
		out, err := valuesv2.NativeTypeToGnmiTypedValue(tv)
		if err != nil || refmodel.ValOfGNMI(out) != cv.val {
			if fail("device", "value/sent-differs", "sent to the device / returned by PROTO Get as %s (%v)", refmodel.ValOfGNMI(out).Pretty(), err) {
				continue
			}
			return
		}
		// v3 helpers
		rw3 := &configapiv3.ReadWritePath{Path: path, TypeOpts: rw.TypeOpts}
		tv3, err := valuesv3.GnmiTypedValueToNativeType(in, rw3)
		if err != nil {
			fail("store", "value/v3/refused", "v3 refused: %v", err)
			continue
		}
		out3, err := valuesv3.NativeTypeToGnmiTypedValue(tv3)
		if err != nil || refmodel.ValOfGNMI(out3) != cv.val {
			if fail("device", "value/v3/round-trip", "v3 round trip gives %s (%v)", refmodel.ValOfGNMI(out3).Pretty(), err) {
				continue
			}
			return
		}
		// JSON (RFC 7951) as given to the plugin and returned by JSON Get
		doc, err := treev2.BuildTree([]*configapi.PathValue{{Path: path, Value: *tv}}, true)
		if err != nil {
			fail("json", "value/json/build-error", "%v", err)
			continue
		}
		flat, problems := refmodel.Flatten(s, doc)
		fl, ok := flat[path]
		if !ok || len(problems) > 0 {
			if fail("json", "value/json/missing-or-malformed", "document %s: %v", doc, problems) {
				continue
			}
			return
		}
		c.Count("json_documents", 1)
		wantKind := map[string]refmodel.JSONKind{"string": "string", "bool": "bool", "bytes": "string", "decimal": "string"}[node.Type]
		if node.Type == "int" || node.Type == "uint" {
			wantKind = "number"
			if node.Width > 32 {
				wantKind = "string"
			}
		}
		if node.Kind == refmodel.LeafList && wantKind != "" {
			wantKind = "array-of-" + wantKind
		}
		if wantKind != "" && fl.Kind != wantKind {
			if fail("json", "value/json/wrong-json-type", "rendered as JSON %s (%s), expected %s", fl.Kind, fl.Raw, wantKind) {
				continue
			}
			return
		}
		want := cv.val
		if node.Type == "float" {
			// decimal text of a float32: compare at float32 precision
			if fl.V != want {
				if fail("json", "value/json/digits", "JSON %s decodes to %s", fl.Raw, fl.V.Pretty()) {
					continue
				}
				return
			}
		} else if node.Type == "decimal" {
			if !sameDecimal(fl.V, want) {
				if fail("json", "value/json/digits", "JSON %s decodes to %s", fl.Raw, fl.V.Pretty()) {
					continue
				}
				return
			}
		} else if fl.V != want {
			if fail("json", "value/json/digits", "JSON %s decodes to %s", fl.Raw, fl.V.Pretty()) {
				continue
			}
			return
		}
	}
	c.Class("pure")
}

// sameDecimal compares d:digits:precision values numerically (1.200 == 1.2)
func sameDecimal(a, b refmodel.Val) bool {
	norm := func(v refmodel.Val) []string {
		s := string(v)
		if strings.HasPrefix(s, "l:") {
			return strings.Split(s[2:], "\x1f")
		}
		return []string{s}
	}
	x, y := norm(a), norm(b)
	if len(x) != len(y) {
		return false
	}
	for i := range x {
		var d1, d2 int64
		var p1, p2 int
		if _, err := fmt.Sscanf(x[i], "d:%d:%d", &d1, &p1); err != nil {
			return false
		}
		if _, err := fmt.Sscanf(y[i], "d:%d:%d", &d2, &p2); err != nil {
			return false
		}
		for p1 < p2 {
			if d1 > math.MaxInt64/10 || d1 < math.MinInt64/10 {
				return false
			}
			d1 *= 10
			p1++
		}
		for p2 < p1 {
			if d2 > math.MaxInt64/10 || d2 < math.MinInt64/10 {
				return false
			}
			d2 *= 10
			p2++
		}
		if d1 != d2 {
			return false
		}
	}
	return true
}

// c17EndToEnd sets typed leaves through the real northbound with the controllers running: the stored value,
// the document the plugin saw, the device request and PROTO / JSON Get are compared by the S2 oracles
func c17EndToEnd(c *fw.Case, vals []c17Value) {
	p := &engine.Profile{Targets: []string{"t1"}}
	opts := world.Options{Targets: p.Targets}
	w, err := world.New(opts)
	if err != nil {
		c.Inconclusive("world: " + err.Error())
		return
	}
	defer w.Close()
	w.Connect("t1")
	e := &engine.Exec{C: c, W: w, P: p, Opts: opts}
	r := c.Rng.Fork("e2e")
	var steps []engine.Step
	for i := 0; i < 8; i++ {
		var ops []refmodel.Op
		used := map[string]bool{}
		for k := 0; k < 3; k++ {
			cv := vals[r.Intn(len(vals))]
			if cv.leaf == "flt-skip-string" || used[cv.leaf] || c17KnownKey(cv.leaf, cv.val, "json") != "" || c17KnownKey(cv.leaf, cv.val, "store") != "" {
				continue
			}
			used[cv.leaf] = true
			ops = append(ops, refmodel.Op{Target: "t1", P: refmodel.MustParse("/t/" + cv.leaf), V: cv.val})
		}
		if len(ops) > 0 {
			steps = append(steps, engine.Step{Kind: "set", Ops: ops, Sync: true})
			c.Count("end_to_end_values", int64(len(ops)))
		}
	}
	e.Steps = steps
	e.RunSteps()
	e.Settle(8*time.Second, 60*time.Second)
	j := e.Judge()
	e.CancelAll()
	// JSON Get of the whole target as well
	resp, err := getQuery(w.Cur(), "t1", query{}, gnmi.Encoding_JSON_IETF)
	if err == nil {
		jt, problems := treeOfJSON(w.Schema, resp)
		if d := jt.Diff(j.Model.Cfg["t1"]); len(d) > 0 || len(problems) > 0 {
			c.Violate("value", "value/e2e/json-get", fmt.Sprintf("JSON Get differs from the values set: %v %v", d, problems), nil)
		}
	}
	for _, f := range j.Findings {
		dumpWorld(c, e)
		c.Violate("value", "value/e2e/"+f.Key, f.Msg, nil)
	}
	c.Class("end-to-end")
	c.Sample(map[string]interface{}{"script": e.Script})
}

func init() {
	fw.Register(&fw.Check{ID: "C17", Level: "exploration",
		Technique:   "runtime monitoring of the value helpers (v2, v3) and of the whole stack: per-type reference encoders; every type x width at its extremes + PRNG values: client value == stored value == device / PROTO value; JSON type and digits of the RFC 7951 document (ints wider than 32 bits as strings); end-to-end typed Sets through handler, controllers, plugin document, device and Get",
		Rule:        "case 0..3 = pure level over the extreme-value table (each with 600 further PRNG values); cases 4.. = end-to-end histories of 8 synchronous Sets of typed leaves; distinct_nontrivial = distinct (type, width, leaf-list?) kinds exercised",
		Assumptions: []string{"float values are compared bit-exact at float32 (what the gNMI API version in use carries); decimals numerically as (digits, precision)", "value kinds listed as known findings are not fed into the end-to-end part"},
		DistinctSet: "value_kind", CaseTimeout: 300e9,
		Floors: map[string]int64{"values": 2500, "json_documents": 2000, "end_to_end_values": 200},
		Cases: func(tier string) int {
			if tier == "thorough" {
				return 400
			}
			return 24
		},
		Run: func(c *fw.Case) {
			vals := c17Values(c.Rng.Fork("values"), 600)
			if c.Index < 4 {
				c17Pure(c, vals)
				return
			}
			c17EndToEnd(c, vals)
		}})
}
