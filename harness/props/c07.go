package props

import (
	"fmt"
	"regexp"
	"strings"
	"sync"
	"time"

	"verif/engine"
	"verif/fw"
	"verif/refmodel"
	"verif/world"
)

var crashNoteRe = regexp.MustCompile(`(?:effect|Atomix write) \d+ \(([a-zA-Z.]+) by ([a-z]*)`)

// c07Run runs the scenario derived from scenarioSeed with the process killed just before its k-th persisted
// effect (store write, device Set, topology write), optionally a second time k2 effects after the restart.
func c07Run(c *fw.Case, scenarioSeed uint64, k, k2 int) { c07RunAt(c, scenarioSeed, k, k2, false) }

// c07RunAt: with rpc set, k counts the individual Atomix write RPCs of the system under test instead of decorated
// calls, so the kill can fall between the two Atomix writes of one store method
func c07RunAt(c *fw.Case, scenarioSeed uint64, k, k2 int, rpc bool) {
	c07RunSteps(c, scenarioSeed, nil, k, k2, rpc, false)
}

// c07Overlap is the directed scenario of the family "successor resumes before its predecessor": three Sets whose
// proposals for t1 are in flight together (issued without waiting), the second one spanning both targets
var c07Overlap = []engine.Step{
	{Kind: "connect", Target: "t1"}, {Kind: "connect", Target: "t2"},
	{Kind: "set", NoWait: true, Ops: []refmodel.Op{up("t1", "/foo", "v1"), up("t1", "/a/b", "v1")}},
	{Kind: "set", NoWait: true, Ops: []refmodel.Op{up("t1", "/bar", "v2"), up("t2", "/foo", "v2")}},
	{Kind: "set", NoWait: true, Ops: []refmodel.Op{del("t1", "/a"), up("t1", "/goo", "v3")}},
}

// c07RunSteps: with fixed steps the scenario is given; with reverse the tasks of a restarted process make their first
// call the later the LOWER the index of their transaction / proposal is, so that successors resume before predecessors
func c07RunSteps(c *fw.Case, scenarioSeed uint64, fixed []engine.Step, k, k2 int, rpc bool, reverse bool) {
	p := &engine.Profile{Targets: []string{"t1", "t2"}, MinOps: 3, MaxOps: 6, PMulti: 40, PPoison: 15, PEq: 5, PDevReject: 10, PDelete: 30, PRollback: 15, PEnv: 10, PNoWait: 50, PSync: 20, PStartOffline: 20, PDevFault: 5, PSerializable: 25, Paths: "rich"}
	opts := world.Options{Targets: p.Targets}
	w, err := world.New(opts)
	if err != nil {
		c.Inconclusive("world: " + err.Error())
		return
	}
	defer w.Close()
	steps := fixed
	if steps == nil {
		steps = engine.GenScenario(fw.NewRng(scenarioSeed), p, w.Schema)
	}
	e := &engine.Exec{C: c, W: w, P: p, Steps: steps, Opts: opts, SecondCrash: k2}
	// "x the schedule in which work resumes": in two of three cases the first call each controller task makes in a
	// restarted process is delayed by 0..30 ms, so that the order in which the pending transactions and proposals
	// are examined again varies from case to case (the third case leaves the order to the watchers' replay)
	mode := c.Rng.Fork("resume").Intn(3)
	if reverse {
		mode = 1
	}
	if mode > 0 {
		dr := &lockedRng{r: c.Rng.Fork("resume-delays")}
		var mu sync.Mutex
		seen := map[string]bool{}
		w.SetDelay(func(kind string) {
			inc := w.Cur()
			t := world.CurrentTask()
			if inc == nil || inc.N < 2 || t == "" || strings.HasPrefix(t, "handler:") {
				return
			}
			key := fmt.Sprintf("%d/%s", inc.N, t)
			mu.Lock()
			first := !seen[key]
			seen[key] = true
			mu.Unlock()
			if first {
				c.Count("resumed_tasks_delayed", 1)
				if reverse {
					// task names end in the index of their transaction ("transaction:2", "proposal:t1-2")
					idx := 0
					if i := strings.LastIndexAny(t, ":-"); i >= 0 {
						fmt.Sscan(t[i+1:], &idx)
					}
					if idx > 0 && idx < 4 {
						time.Sleep(time.Duration(4-idx) * 60 * time.Millisecond)
					}
					return
				}
				time.Sleep(time.Duration(dr.Intn(30*mode)) * time.Millisecond)
			}
		})
	}
	if rpc {
		w.CrashBeforeRPC(int64(k))
	} else {
		w.CrashBeforeEffect(int64(k))
	}
	e.RunSteps()
	e.Settle(8*time.Second, 120*time.Second)
	j := e.Judge()
	e.FixedPoint(j)
	e.CancelAll()
	s2Report(c, "C07", e, j)
	c.Count("crashes_injected", int64(e.Crashes))
	if rpc {
		c.Count("crashes_injected_between_atomix_writes", int64(e.Crashes))
	}
	site := "none"
	for _, ev := range w.Events() {
		if ev.Kind == "env.crash" {
			if m := crashNoteRe.FindStringSubmatch(ev.Note); m != nil {
				site = m[1] + "@" + m[2]
				c.Distinct("crash_site", site)
			}
		}
	}
	if e.Crashes == 0 {
		c.Trivial()
	}
	c.Class(fmt.Sprintf("scenario=%x crashes=%d site=%s", scenarioSeed&0xffff, e.Crashes, site))
	if e.Crashes > 0 {
		c.Distinct("crash_point", fmt.Sprintf("%x/%d/%d/%v", scenarioSeed, k, k2, rpc))
	}
}

const directedK = 130

func nRPCrandom(tier string) int {
	if tier == "thorough" {
		return 2000
	}
	return 100
}

func init() {
	const quickScenarios, quickK = 3, 150
	const thoroughScenarios, thoroughK = 60, 200
	// kills between individual Atomix writes: one (thorough: 20) enumerated scenario x every write RPC + PRNG placements
	const quickRPCk, quickRPCrandom, thoroughRPCscenarios, thoroughRPCk, thoroughRPCrandom = 300, 100, 20, 320, 2000
	fw.Register(&fw.Check{ID: "C07", Level: "fault_enumeration",
		Technique: "runtime monitoring with fault injection: the process is killed (all its goroutines park for ever at their next decorated call or Atomix RPC) just before the k-th persisted effect - counted in decorated calls (store write, device Set, topology write) and, in a second family of cases, in individual Atomix write RPCs, which places kills between the two Atomix writes of one store method - for every k of enumerated scenarios, of a directed scenario with overlapping proposals on one target (predecessors resume last) and for PRNG (scenario, k) and (k1, k2) placements; the order in which pending work resumes after the restart is varied by delaying each task's first call; a new incarnation is started on the same Atomix cluster and devices; end state vs crash-independent sequential model + order monitor + fixed point",
		Rule: "quick: 3 scenarios x every k in 1..150 decorated effects (k beyond the scenario's last effect is a crash-free run, counted trivial) + 100 PRNG (scenario, k) + 40 PRNG pairs (k1, k2 effects after the restart) + 1 scenario x every k in 1..300 Atomix write RPCs + 100 PRNG (scenario, RPC k) + directed overlap scenario x every k in 1..130; " +
			"non-trivial = at least one kill happened; distinct_nontrivial = distinct (scenario, k1, k2, granularity) placements at which a kill actually happened",
		Assumptions: append([]string{"a kill parks every goroutine of the system under test at its next decorated call or unary Atomix RPC; an RPC that was already in flight completes (it may or may not have landed in a real crash either)",
			"device requests and topology writes are atomic with respect to the kill"}, s2Assumptions...),
		DistinctSet: "crash_point", CaseTimeout: 300e9,
		Floors: map[string]int64{"crashes_injected": 400, "crashes_injected_between_atomix_writes": 150, "executions_reaching_final_state": 500},
		Cases: func(tier string) int {
			if tier == "thorough" {
				return thoroughScenarios*thoroughK + 3000 + thoroughRPCscenarios*thoroughRPCk + thoroughRPCrandom + 2*directedK
			}
			return quickScenarios*quickK + 140 + quickRPCk + quickRPCrandom + directedK
		},
		Run: func(c *fw.Case) {
			ns, nk, nrs, nrk := quickScenarios, quickK, 1, quickRPCk
			nRandom := 140
			if c.Tier == "thorough" {
				ns, nk, nrs, nrk = thoroughScenarios, thoroughK, thoroughRPCscenarios, thoroughRPCk
				nRandom = 3000
			}
			i := c.Index
			if i < ns*nk {
				sc := i / nk
				c07Run(c, fw.Derive(c.Seed, "C07-scenario", fmt.Sprint(sc)), 1+i%nk, 0)
				return
			}
			i -= ns * nk
			r := c.Rng.Fork("placement")
			if i < nRandom {
				sc := fw.Derive(c.Seed, "C07-random-scenario", fmt.Sprint(c.Index))
				k := 1 + r.Intn(120)
				k2 := 0
				if c.Index%7 < 2 {
					k2 = 1 + r.Intn(60)
				}
				c07Run(c, sc, k, k2)
				return
			}
			i -= nRandom
			if i < nrs*nrk {
				sc := i / nrk
				c07RunAt(c, fw.Derive(c.Seed, "C07-scenario", fmt.Sprint(sc)), 1+i%nrk, 0, true)
				return
			}
			if i -= nrs * nrk; i < nRPCrandom(c.Tier) {
				c07RunAt(c, fw.Derive(c.Seed, "C07-random-scenario", fmt.Sprint(c.Index)), 1+r.Intn(220), 0, true)
				return
			}
			// directed: overlapping proposals on one target, every kill position, predecessors resume last
			i -= nRPCrandom(c.Tier)
			kk, gran := 1+i%directedK, i/directedK
			c07RunSteps(c, 0, c07Overlap, kk, 0, gran == 1, true)
			c.Class(fmt.Sprintf("directed-overlap k=%d rpc=%v", kk, gran == 1))
		}})
}
