package props

import (
	"context"
	"fmt"
	"sort"
	"strings"

	configapi "github.com/onosproject/onos-api/go/onos/config/v2"
	configapiv3 "github.com/onosproject/onos-api/go/onos/config/v3"
	"github.com/onosproject/onos-config/pkg/utils"
	pathutils "github.com/onosproject/onos-config/pkg/utils/path"
	treev2 "github.com/onosproject/onos-config/pkg/utils/v2/tree"
	treev3 "github.com/onosproject/onos-config/pkg/utils/v3/tree"
	"github.com/openconfig/gnmi/proto/gnmi"

	"verif/fw"
	"verif/refmodel"
	"verif/world"
)

// ---------------------------------------------------------------- C16

func c16Elems(names, keyNames, values []string) []refmodel.Elem {
	var out []refmodel.Elem
	for _, n := range names {
		out = append(out, refmodel.Elem{Name: n})
		for _, k := range keyNames {
			for _, v := range values {
				out = append(out, refmodel.Elem{Name: n, Keys: []refmodel.KV{{K: k, V: v}}})
			}
		}
		for i := 0; i < len(keyNames); i++ {
			for j := i + 1; j < len(keyNames); j++ {
				for _, v1 := range values {
					for _, v2 := range values {
						out = append(out, refmodel.Elem{Name: n, Keys: []refmodel.KV{{K: keyNames[i], V: v1}, {K: keyNames[j], V: v2}}})
					}
				}
			}
		}
	}
	for i := range out {
		keys := out[i].Keys
		sort.Slice(keys, func(a, b int) bool { return keys[a].K < keys[b].K })
	}
	return out
}

// canon is an unambiguous rendering used only as a map key by the oracle (length-prefixed fields)
func canon(p refmodel.Path) string {
	var b strings.Builder
	for _, e := range p {
		fmt.Fprintf(&b, "/%d:%s", len(e.Name), e.Name)
		for _, kv := range e.Keys {
			fmt.Fprintf(&b, "[%d:%s=%d:%s]", len(kv.K), kv.K, len(kv.V), kv.V)
		}
	}
	return b.String()
}

func c16CheckPath(c *fw.Case, p refmodel.Path, seen map[string]string, strict bool) bool {
	g := p.ToGNMI("")
	text := utils.StrPath(g)
	c.Count("paths", 1)
	if prev, ok := seen[text]; ok && prev != canon(p) {
		c.Violate("path", "path/two-paths-one-text", fmt.Sprintf("paths %s and %s share the textual form %q", prev, canon(p), text), nil)
		return false
	}
	seen[text] = canon(p)
	parts := utils.SplitPath(text)
	if len(parts) != len(p) {
		if strict {
			c.Violate("path", "path/split-boundaries", fmt.Sprintf("%s renders as %q which splits into %d parts %q", canon(p), text, len(parts), parts), nil)
			return false
		}
		c.Count("escape_paths_not_preserved_by_helpers", 1)
		return true
	}
	back, err := utils.ParseGNMIElements(parts)
	if err != nil {
		if strict {
			c.Violate("path", "path/parse-error", fmt.Sprintf("%s renders as %q which does not parse back: %v", canon(p), text, err), nil)
			return false
		}
		c.Count("escape_paths_refused_by_helpers", 1)
		return true
	}
	if got := refmodel.FromGNMI(back); !got.Equal(p) {
		if strict {
			c.Violate("path", "path/round-trip", fmt.Sprintf("%s -> %q -> %s", canon(p), text, canon(got)), nil)
			return false
		}
		c.Count("escape_paths_not_preserved_by_helpers", 1)
		return true
	}
	if strict {
		// own scanner agrees on element boundaries, and the parent is the path without its last element
		mine, err := refmodel.Parse(text)
		if err != nil || !mine.Equal(p) {
			c.Violate("path", "path/reference-parser-disagrees", fmt.Sprintf("%q parsed by the reference scanner gives %s (%v)", text, canon(mine), err), nil)
			return false
		}
		parent := pathutils.GetParentPath(text)
		wantParent := utils.StrPath(p.Parent().ToGNMI(""))
		slashInKey := false
		for _, e := range p {
			for _, kv := range e.Keys {
				if strings.Contains(kv.V, "/") {
					slashInKey = true
				}
			}
		}
		if slashInKey {
			// GetParentPath cuts at the last '/', which a key value may contain; such values are outside the
			// alphabet update validation accepts (IndexAllowedChars), so the parent clause is not judged for them
			c.Count("paths_with_slash_in_key_parent_not_judged", 1)
		} else if len(p) == 1 {
			if parent != "" && parent != "/" {
				c.Violate("path", "path/parent", fmt.Sprintf("parent of %q is %q", text, parent), nil)
				return false
			}
		} else if parent != wantParent {
			c.Violate("path", "path/parent", fmt.Sprintf("parent of %q is %q, expected %q", text, parent, wantParent), nil)
			return false
		}
		// the list an entry belongs to is the path without the keys of its last element
		if !slashInKey && len(p) > 0 {
			last := p[len(p)-1]
			wantList := ""
			if len(last.Keys) > 0 {
				bare := append(append(refmodel.Path{}, p[:len(p)-1]...), refmodel.Elem{Name: last.Name})
				wantList = utils.StrPath(bare.ToGNMI(""))
			}
			c.Count("list_paths_checked", 1)
			if got := pathutils.GetListPath(text); got != wantList {
				c.Violate("path", "path/list-path", fmt.Sprintf("the list path of %q is %q, expected %q", text, got, wantList), nil)
				return false
			}
		}
	}
	return true
}

func c16Exhaustive(c *fw.Case, part, parts int) {
	elems := c16Elems([]string{"a", "b-c", "d_e", "mod:f", "x.y", "n1"}, []string{"k", "k2", "id"}, []string{"1", "x", "10", "a-b", "a.b", "a_b", "*", "xy"})
	seen := map[string]string{}
	// depth 1 (all) + depth 2 with the first element restricted to this part's slice
	if part == 0 {
		for _, e := range elems {
			if !c16CheckPath(c, refmodel.Path{e}, seen, true) {
				return
			}
		}
	}
	for i := part; i < len(elems); i += parts {
		for _, e2 := range elems {
			if !c16CheckPath(c, refmodel.Path{elems[i], e2}, seen, true) {
				return
			}
		}
	}
	// depth 3: PRNG sample
	r := c.Rng.Fork("depth3")
	for i := 0; i < 20000; i++ {
		p := refmodel.Path{elems[r.Intn(len(elems))], elems[r.Intn(len(elems))], elems[r.Intn(len(elems))]}
		if !c16CheckPath(c, p, seen, true) {
			return
		}
	}
	c.Distinct("texts", fmt.Sprintf("part%d:%d", part, len(seen)))
	c.Count("distinct_textual_forms", int64(len(seen)))
	c.Class(fmt.Sprintf("exhaustive part %d/%d", part, parts))
	c.Sample(map[string]interface{}{"elements_in_alphabet": len(elems), "example": utils.StrPath(refmodel.Path{elems[len(elems)-1], elems[7]}.ToGNMI(""))})
}

func c16Escapes(c *fw.Case) {
	// escape-worthy characters: the helpers may refuse them or must preserve them; and what the northbound
	// accepts must be stored exactly as named ("refused or preserved, never silently altered")
	w, err := world.New(world.Options{Targets: []string{"t1"}, NoControllers: true})
	if err != nil {
		c.Inconclusive("world: " + err.Error())
		return
	}
	defer w.Close()
	r := c.Rng.Fork("escapes")
	special := []string{"]", "[", "=", "/", "\\", " ", "a]b", "a[b", "a=b", "a/b", "a\\b", "a b", "eth1/1", "x]", "[x", "\\]", "1", "x"}
	seen := map[string]string{}
	for i := 0; i < 600; i++ {
		var p refmodel.Path
		depth := 1 + r.Intn(5)
		for d := 0; d < depth; d++ {
			e := refmodel.Elem{Name: []string{"a", "b", "c", "l", "m", "x"}[r.Intn(6)]}
			for k := r.Intn(4); k > 0; k-- {
				kn := []string{"k", "k1", "k2", "id"}[r.Intn(4)]
				dup := false
				for _, kv := range e.Keys {
					if kv.K == kn {
						dup = true
					}
				}
				if !dup {
					e.Keys = append(e.Keys, refmodel.KV{K: kn, V: special[r.Intn(len(special))]})
				}
			}
			sort.Slice(e.Keys, func(a, b int) bool { return e.Keys[a].K < e.Keys[b].K })
			p = append(p, e)
		}
		c.Count("escape_paths", 1)
		if !c16CheckPath(c, p, seen, true) {
			return
		}
	}
	// end to end through the Set handler
	for i := 0; i < 150; i++ {
		kv := special[r.Intn(len(special))]
		var p refmodel.Path
		switch r.Intn(3) {
		case 0:
			p = refmodel.Path{{Name: "c"}, {Name: "l", Keys: []refmodel.KV{{K: "k", V: kv}}}, {Name: "v"}}
		case 1:
			p = refmodel.Path{{Name: "c"}, {Name: "m", Keys: []refmodel.KV{{K: "k1", V: kv}, {K: "k2", V: special[r.Intn(len(special))]}}}, {Name: "v"}}
		case 2:
			p = refmodel.Path{{Name: "c"}, {Name: "l", Keys: []refmodel.KV{{K: "k", V: "x"}}}, {Name: "in", Keys: []refmodel.KV{{K: "id", V: kv}}}, {Name: "w"}}
		}
		del := r.Chance(1, 3)
		req := &gnmi.SetRequest{}
		if del {
			req.Delete = []*gnmi.Path{p.Parent().ToGNMI("t1")}
			p = p.Parent()
		} else {
			req.Update = []*gnmi.Update{{Path: p.ToGNMI("t1"), Val: refmodel.S("v").ToGNMI()}}
		}
		tx, _, _ := trySet(w, context.Background(), req)
		c.Count("escape_sets", 1)
		if tx == nil {
			c.Count("escape_sets_refused", 1)
			continue
		}
		c.Count("escape_sets_accepted", 1)
		for _, pvs := range tx.GetChange().GetValues() {
			for path := range pvs.Values {
				got, err := refmodel.Parse(path)
				if err != nil || !got.Equal(p) {
					c.Violate("path", "path/accepted-but-altered", fmt.Sprintf("the Set named %s; the logged path %q reads back as %s (%v)", canon(p), path, canon(got), err), nil)
					return
				}
			}
		}
	}
	c.Class("escapes")
}

func init() {
	const parts = 14
	fw.Register(&fw.Check{ID: "C16", Level: "exploration", Exhaustive: true,
		Technique:   "runtime monitoring of the pure path helpers, exhaustive small scope: every path of depth <= 2 over 1302 elements (6 names x 0..2 keys from 3 key names x 8 values of the accepted alphabet) + PRNG depth 3; round trip, injectivity (hash map over all textual forms of a part), split boundaries vs an independent scanner, parent; escape-worthy characters: helpers and Set handler must refuse or preserve",
		Rule:        "cases 0..13 partition the depth-2 space by first element (each also 20000 PRNG depth-3 paths); case 14 = 600 PRNG paths with escape-worthy key values through the helpers + 150 Sets whose keys carry them; distinct_nontrivial = parts executed (each part holds > 10^5 distinct textual forms, reported in counters)",
		Assumptions: []string{"accepted alphabet for key values = IndexAllowedChars; names are YANG identifiers optionally module-prefixed", "end-to-end path identity (client -> store -> device -> Get) is additionally exercised by the S2 oracles of C03/C04, which compare element-wise"},
		Floors:      map[string]int64{"paths": 1500000, "distinct_textual_forms": 1500000, "escape_paths": 500, "escape_sets": 100},
		Cases:       func(tier string) int { return parts + 1 },
		Run: func(c *fw.Case) {
			if c.Index < parts {
				c16Exhaustive(c, c.Index, parts)
				return
			}
			c16Escapes(c)
		}})
}

// ---------------------------------------------------------------- C18

type c18Item struct {
	path      string
	container bool // containers and list entries only occur as tombstones
	val       refmodel.Val
}

var c18Universe = []c18Item{
	{"/a/b", false, refmodel.S("1")}, {"/a/bc", false, refmodel.S("2")}, {"/a", true, ""},
	{"/c/l[k=1]/v", false, refmodel.S("3")}, {"/c/l[k=10]/v", false, refmodel.S("4")}, {"/c/l[k=1]/n", false, refmodel.U(7)}, {"/c/l[k=1]", true, ""},
	{"/c/m[k1=1][k2=2]/v", false, refmodel.S("5")}, {"/c/m[k1=1][k2=3]/v", false, refmodel.S("6")}, {"/c/m[k1=10][k2=2]/v", false, refmodel.S("6b")}, {"/c/m[k1=1][k2=2]", true, ""},
	{"/c/l[k=1]/in[id=1]/w", false, refmodel.S("7")}, {"/c/l[k=1]/in[id=10]/w", false, refmodel.S("8")}, {"/c", true, ""},
	{"/cont/leaf2", false, refmodel.S("9")}, {"/cont/leaf2a", false, refmodel.S("9a")}, {"/cont-x/leaf", false, refmodel.S("10")}, {"/cont", true, ""},
	{"/c/l[k=true]/v", false, refmodel.S("11")}, {"/c/l[k=1]/k", false, refmodel.S("1")},
	// typed key leaves written explicitly: a boolean key and a numeric one
	{"/c/lb[on=true]/on", false, refmodel.Val("b:true")}, {"/c/lb[on=true]/v", false, refmodel.S("12")}, {"/c/l[k=1]/in[id=1]/id", false, refmodel.U(1)},
}

type c18Entry struct {
	p       refmodel.Path
	deleted bool
	val     refmodel.Val
}

func c18Check(c *fw.Case, s *refmodel.Schema, set []c18Entry) bool {
	c.Count("sets", 1)
	// reference: live leaves and top tombstones
	var tombs []refmodel.Path
	for _, e := range set {
		if e.deleted {
			tombs = append(tombs, e.p)
		}
	}
	under := func(p refmodel.Path, strict bool) bool {
		for _, t := range tombs {
			if p.Under(t) && !(strict && p.Equal(t)) {
				return true
			}
		}
		return false
	}
	live := refmodel.Tree{}
	var wantKeep, wantKeepTop []string
	for _, e := range set {
		if !e.deleted && !under(e.p, false) {
			live.Set(e.p, e.val)
			wantKeep = append(wantKeep, e.p.String())
			wantKeepTop = append(wantKeepTop, e.p.String())
		}
		if e.deleted && !under(e.p, true) {
			wantKeepTop = append(wantKeepTop, "-"+e.p.String())
		}
	}
	sort.Strings(wantKeep)
	sort.Strings(wantKeepTop)
	var v2 []*configapi.PathValue
	var v3 []configapiv3.PathValue
	for _, e := range set {
		pv := &configapi.PathValue{Path: e.p.String(), Deleted: e.deleted}
		pv3 := configapiv3.PathValue{Path: e.p.String(), Deleted: e.deleted}
		if !e.deleted {
			tv, err := world.TypedValueOf(s.NodeOf(e.p), e.val)
			if err != nil {
				c.Inconclusive(err.Error())
				return false
			}
			pv.Value = *tv
			pv3.Value = configapiv3.TypedValue{Bytes: tv.Bytes, Type: configapiv3.ValueType(tv.Type), TypeOpts: tv.TypeOpts}
		}
		v2 = append(v2, pv)
		v3 = append(v3, pv3)
	}
	desc := func() string {
		var d []string
		for _, e := range set {
			if e.deleted {
				d = append(d, "-"+e.p.String())
			} else {
				d = append(d, e.p.String())
			}
		}
		return strings.Join(d, " ")
	}
	render := func(paths []string) string { sort.Strings(paths); return strings.Join(paths, " ") }
	for _, top := range []bool{false, true} {
		want := wantKeep
		if top {
			want = wantKeepTop
		}
		var got2, got3 []string
		for _, pv := range treev2.PrunePathValues(v2, top) {
			if pv.Deleted {
				got2 = append(got2, "-"+pv.Path)
			} else {
				got2 = append(got2, pv.Path)
			}
		}
		for _, pv := range treev3.PrunePathValues(v3, top) {
			if pv.Deleted {
				got3 = append(got3, "-"+pv.Path)
			} else {
				got3 = append(got3, pv.Path)
			}
		}
		if render(got2) != render(want) {
			c.Violate("prune", fmt.Sprintf("prune/v2/top=%v", top), fmt.Sprintf("PrunePathValues(%s, %v) = [%s], expected [%s]", desc(), top, render(got2), render(want)), nil)
			return false
		}
		if render(got3) != render(want) {
			c.Violate("prune", fmt.Sprintf("prune/v3/top=%v", top), fmt.Sprintf("v3 PrunePathValues(%s, %v) = [%s], expected [%s]", desc(), top, render(got3), render(want)), nil)
			return false
		}
	}
	for ver, build := range map[string]func() ([]byte, error){
		"v2": func() ([]byte, error) { return treev2.BuildTree(v2, true) },
		"v3": func() ([]byte, error) { return treev3.BuildTree(v3, true) },
	} {
		doc, err := build()
		if err != nil {
			c.Violate("tree", "tree/"+ver+"/build-error", fmt.Sprintf("BuildTree(%s): %v", desc(), err), nil)
			return false
		}
		flat, problems := refmodel.Flatten(s, doc)
		if len(problems) > 0 {
			c.Violate("tree", "tree/"+ver+"/malformed", fmt.Sprintf("BuildTree(%s) = %s: %v", desc(), doc, problems), nil)
			return false
		}
		got := refmodel.FlatTree(flat).WithoutKeyLeaves(s)
		if d := got.Diff(live.WithoutKeyLeaves(s)); len(d) > 0 {
			c.Violate("tree", "tree/"+ver+"/document-differs-from-live-leaves", fmt.Sprintf("BuildTree(%s) flattens to %s, the live leaves are %s: %v\n%s", desc(), got, live, d, doc), nil)
			return false
		}
		// an explicit key leaf must agree with its entry
		for k, fl := range flat {
			if n := s.NodeOf(fl.P); n != nil && n.IsKeyLeaf() {
				ent := fl.P[len(fl.P)-2]
				for _, kv := range ent.Keys {
					if kv.K == n.Name && string(fl.V)[2:] != kv.V {
						c.Violate("tree", "tree/"+ver+"/key-leaf-contradicts-entry", fmt.Sprintf("%s = %s in %s", k, fl.V, doc), nil)
						return false
					}
				}
			}
		}
	}
	return true
}

func c18Run(c *fw.Case, part, parts int) {
	s := refmodel.DefaultSchema()
	n := len(c18Universe)
	// enumerate subsets of size 1..4 whose smallest index is congruent to part, each element in each of its states
	var idx []int
	count := 0
	var rec func(start int)
	rec = func(start int) {
		if len(idx) > 0 {
			states := 1
			for _, i := range idx {
				if !c18Universe[i].container {
					states *= 2
				}
			}
			for st := 0; st < states; st++ {
				var set []c18Entry
				bit := 0
				for _, i := range idx {
					it := c18Universe[i]
					e := c18Entry{p: refmodel.MustParse(it.path), val: it.val}
					if it.container {
						e.deleted = true
					} else {
						e.deleted = st>>uint(bit)&1 == 1
						bit++
					}
					set = append(set, e)
				}
				count++
				if !c18Check(c, s, set) {
					return
				}
			}
		}
		if len(idx) == 4 || c.Violated() {
			return
		}
		for i := start; i < n; i++ {
			if len(idx) == 0 && i%parts != part {
				continue
			}
			idx = append(idx, i)
			rec(i + 1)
			idx = idx[:len(idx)-1]
			if c.Violated() {
				return
			}
		}
	}
	rec(0)
	// PRNG: larger sets
	r := c.Rng.Fork("large")
	for k := 0; k < 300 && !c.Violated(); k++ {
		var set []c18Entry
		for i, it := range c18Universe {
			if r.Chance(1, 2) {
				e := c18Entry{p: refmodel.MustParse(it.path), val: it.val, deleted: it.container || r.Chance(1, 4)}
				set = append(set, e)
			}
			_ = i
		}
		c.Count("large_sets", 1)
		if len(set) > 0 {
			c18Check(c, s, set)
		}
	}
	// PRNG: list entries whose key values resemble each other (letter case, leading zeros, prefixes, separators):
	// "identified by their full key sets" means byte-for-byte
	kr := c.Rng.Fork("keyvariants")
	pool := []string{"eth1", "Eth1", "ETH1", "eth10", "eth", "01", "1", "1.0", "10", "true", "True", "TRUE", "a-b", "a_b", "ab", "x", "X"}
	for k := 0; k < 300 && !c.Violated(); k++ {
		var set []c18Entry
		seen := map[string]bool{}
		add := func(ps string, v refmodel.Val, del bool) {
			if !seen[ps] {
				seen[ps] = true
				set = append(set, c18Entry{p: refmodel.MustParse(ps), val: v, deleted: del})
			}
		}
		a := pool[kr.Intn(len(pool))]
		for n := 2 + kr.Intn(3); n > 0; n-- {
			b := pool[kr.Intn(len(pool))]
			if kr.Chance(1, 2) {
				b = a // the same entry again: its leaves must stay in one entry
			}
			switch kr.Intn(4) {
			case 0:
				add(fmt.Sprintf("/c/l[k=%s]/v", b), refmodel.S("v"+b), kr.Chance(1, 6))
			case 1:
				add(fmt.Sprintf("/c/l[k=%s]/n", b), refmodel.U(uint64(len(b))), false)
			case 2:
				add(fmt.Sprintf("/c/m[k1=%s][k2=%s]/v", a, b), refmodel.S("m"+a+b), kr.Chance(1, 6))
			case 3:
				add(fmt.Sprintf("/c/l[k=%s]/sub/x", b), refmodel.S("s"+b), false)
			}
		}
		if kr.Chance(1, 5) {
			add(fmt.Sprintf("/c/l[k=%s]", a), "", true)
		}
		c.Count("key_variant_sets", 1)
		c18Check(c, s, set)
	}
	c.Class(fmt.Sprintf("part %d/%d", part, parts))
	c.Distinct("part", fmt.Sprintf("%d:%d", part, count))
	ex := []*configapi.PathValue{{Path: "/c/l[k=1]/v", Value: *configapi.NewTypedValueString("3")}, {Path: "/c/l[k=10]/v", Value: *configapi.NewTypedValueString("4")}, {Path: "/c/l[k=1]", Deleted: true}}
	doc, _ := treev2.BuildTree(ex, true)
	c.Sample(map[string]interface{}{"sets_enumerated": count, "example_set": "/c/l[k=1]/v=3 /c/l[k=10]/v=4 -/c/l[k=1]", "example_document": string(doc)})
}

func init() {
	const parts = 10
	fw.Register(&fw.Check{ID: "C18", Level: "exploration", Exhaustive: true,
		Technique:   "runtime monitoring of the pure tree helpers (v2 and v3), exhaustive small scope: every set of <= 4 entries from a 23-path universe (nested and two-key lists, numeric / boolean-looking keys, keys that are prefixes of each other, sibling names sharing prefixes, explicit key leaf) in every value / tombstone state; BuildTree document flattened by an independent schema-driven flattener == live leaves; PrunePathValues in both modes == reference",
		Rule:        "cases partition the subsets by smallest element; each case adds 300 PRNG sets of ~10 entries and 300 PRNG sets of list entries whose key values resemble each other (letter case, leading zeros, prefixes, separators); distinct_nontrivial = parts executed",
		Assumptions: []string{"a key leaf that a document shows only because it identifies its entry is implied, not an extra leaf; an explicit key leaf must agree with its entry"},
		DistinctSet: "part",
		Floors:      map[string]int64{"sets": 30000, "large_sets": 2500, "key_variant_sets": 2500},
		Cases:       func(tier string) int { return parts },
		Run:         func(c *fw.Case) { c18Run(c, c.Index, parts) }})
}
