// vcheck is the single entry point of the verification harness.
//
//	vcheck run   -root /verif -prop C03 -tier quick -seed 1        (parent: spawns children, writes evidence)
//	vcheck child -prop C03 -tier quick -seed 1 -from 0 -to 10 -out f  (one batch of cases)
//	vcheck replay -root /verif -file replays/C03-....json
package main

import (
	"encoding/json"
	"flag"
	"fmt"
	"os"

	"verif/fw"
	_ "verif/props"
)

func main() {
	if len(os.Args) < 2 {
		fmt.Println("usage: vcheck run|child|replay|list ...")
		os.Exit(2)
	}
	fs := flag.NewFlagSet(os.Args[1], flag.ExitOnError)
	root := fs.String("root", "/verif", "verification root")
	prop := fs.String("prop", "", "property id")
	tier := fs.String("tier", "quick", "quick|thorough")
	seed := fs.Uint64("seed", 1, "seed")
	from := fs.Int("from", 0, "first case")
	to := fs.Int("to", 0, "one past last case")
	out := fs.String("out", "", "child output file")
	file := fs.String("file", "", "replay file")
	_ = fs.Parse(os.Args[2:])
	switch os.Args[1] {
	case "list":
		for _, id := range fw.All() {
			fmt.Println(id)
		}
	case "describe":
		var out []map[string]interface{}
		for _, id := range fw.All() {
			ck := fw.Lookup(id)
			out = append(out, map[string]interface{}{"id": ck.ID, "level": ck.Level, "technique": ck.Technique, "rule": ck.Rule,
				"assumptions": ck.Assumptions, "floors": ck.Floors, "quick_cases": ck.Cases("quick"), "thorough_cases": ck.Cases("thorough"), "race": ck.Race})
		}
		b, _ := json.MarshalIndent(out, "", " ")
		fmt.Println(string(b))
	case "run":
		ck := fw.Lookup(*prop)
		if ck == nil {
			fmt.Printf("unknown property %s\n", *prop)
			os.Exit(2)
		}
		os.Exit(fw.RunParent(ck, *root, *tier, *seed, nil))
	case "child":
		ck := fw.Lookup(*prop)
		if ck == nil {
			os.Exit(2)
		}
		if err := fw.RunChild(ck, *tier, *seed, *from, *to, *out); err != nil {
			fmt.Println(err)
			os.Exit(2)
		}
	case "replay":
		b, err := os.ReadFile(*file)
		if err != nil {
			fmt.Println(err)
			os.Exit(2)
		}
		var doc struct {
			Property string `json:"property"`
			Tier     string `json:"tier"`
			Seed     uint64 `json:"seed"`
			Case     int    `json:"case"`
		}
		if err := json.Unmarshal(b, &doc); err != nil {
			fmt.Println(err)
			os.Exit(2)
		}
		ck := fw.Lookup(doc.Property)
		if ck == nil {
			os.Exit(2)
		}
		// re-run the single case in this process, up to 20 times (nondeterminism inside the system under test)
		for attempt := 0; attempt < 20; attempt++ {
			res := fw.RunCase(ck, doc.Tier, doc.Seed, doc.Case)
			if len(res.Violations) > 0 {
				o, _ := json.MarshalIndent(res, "", " ")
				fmt.Println(string(o))
				fmt.Printf("VIOLATION property=%s replay=%s\n", doc.Property, *file)
				os.Exit(1)
			}
		}
		fmt.Println("not reproduced in 20 attempts; the recorded trace is in the replay file")
	default:
		os.Exit(2)
	}
}
