// SPDX-FileCopyrightText: 2022-present Intel Corporation
//
// SPDX-License-Identifier: Apache-2.0

// Package atomixtap is a copy of github.com/atomix/go-sdk v0.13.3 pkg/test (client.go, driver.go, node.go;
// Apache-2.0, Intel Corporation) - the in-memory Atomix test runtime the repository's own store tests use.
// The only change: a client can be given a Tap, which is called (in the caller's goroutine) before and after every
// unary Atomix RPC issued through connections made by that client. The verification harness uses it as a
// kill / park point between the individual Atomix writes of one store method.
package atomixtap

import (
	"context"
	"fmt"
	counterv1 "github.com/atomix/atomix/api/runtime/counter/v1"
	electionv1 "github.com/atomix/atomix/api/runtime/election/v1"
	indexedmapv1 "github.com/atomix/atomix/api/runtime/indexedmap/v1"
	listv1 "github.com/atomix/atomix/api/runtime/list/v1"
	lockv1 "github.com/atomix/atomix/api/runtime/lock/v1"
	mapv1 "github.com/atomix/atomix/api/runtime/map/v1"
	setv1 "github.com/atomix/atomix/api/runtime/set/v1"
	runtimeapiv1 "github.com/atomix/atomix/api/runtime/v1"
	valuev1 "github.com/atomix/atomix/api/runtime/value/v1"
	rsmapiv1 "github.com/atomix/atomix/protocols/rsm/api/v1"
	"github.com/atomix/atomix/protocols/rsm/pkg/node"
	"github.com/atomix/atomix/runtime/pkg/network"
	runtimev1 "github.com/atomix/atomix/runtime/pkg/runtime/v1"
	"github.com/atomix/atomix/runtime/pkg/utils/grpc/interceptors"
	"github.com/atomix/atomix/sidecar/pkg/sidecar"
	"github.com/gogo/protobuf/jsonpb"
	"github.com/gogo/protobuf/types"
	"google.golang.org/grpc"
	"google.golang.org/grpc/credentials/insecure"
	"os"
	"sync"
	"sync/atomic"
)

var PrimitiveTypes = []runtimeapiv1.PrimitiveType{
	counterv1.PrimitiveType,
	electionv1.PrimitiveType,
	indexedmapv1.PrimitiveType,
	listv1.PrimitiveType,
	lockv1.PrimitiveType,
	mapv1.PrimitiveType,
	setv1.PrimitiveType,
	valuev1.PrimitiveType,
}

func NewClient(rules ...runtimeapiv1.RoutingRule) *Client {
	return &Client{
		network: network.NewLocalDriver(),
		types:   PrimitiveTypes,
		rules:   rules,
	}
}

type Client struct {
	network  network.Driver
	node     *node.Node
	types    []runtimeapiv1.PrimitiveType
	rules    []runtimeapiv1.RoutingRule
	runtimes []*sidecar.Service
	mu       sync.Mutex
}

// Tap is called before (after == false) and after (after == true) every unary RPC with the full gRPC method name
type Tap func(method string, after bool)

// Tapped is a view of a Client whose connections call the tap before every unary RPC. It shares the cluster.
type Tapped struct {
	c   *Client
	tap Tap
}

// Tapped returns a view of the client whose connections are tapped
func (c *Client) Tapped(tap Tap) *Tapped { return &Tapped{c: c, tap: tap} }

// Connect implements primitive.Client
func (t *Tapped) Connect(ctx context.Context) (*grpc.ClientConn, error) {
	return t.c.connectTapped(ctx, t.tap)
}

func (c *Client) start() error {
	c.mu.Lock()
	defer c.mu.Unlock()
	if c.node != nil {
		return nil
	}
	c.node = newNode(c.network, node.WithHost("localhost"), node.WithPort(nextPort()))
	if err := c.node.Start(); err != nil {
		return err
	}
	return nil
}

func (c *Client) Connect(ctx context.Context) (*grpc.ClientConn, error) {
	return c.connectTapped(ctx, nil)
}

func (c *Client) connectTapped(ctx context.Context, tap Tap) (*grpc.ClientConn, error) {
	if err := c.start(); err != nil {
		return nil, err
	}

	runtime := runtimev1.New(runtimev1.WithDriver(driverID, newDriver(c.network)))

	storeID := runtimeapiv1.StoreID{
		Name: "test",
	}

	rules := c.rules
	if len(rules) == 0 {
		rules = append(rules, runtimeapiv1.RoutingRule{
			Names: []string{"*"},
		})
	}

	err := runtime.Program(ctx, runtimeapiv1.Route{
		StoreID: storeID,
		Rules:   rules,
	})
	if err != nil {
		return nil, err
	}

	service := sidecar.NewService(runtime,
		sidecar.WithNetwork(c.network),
		sidecar.WithPort(nextPort())).(*sidecar.Service)
	if err := service.Start(); err != nil {
		return nil, err
	}
	c.mu.Lock()
	c.runtimes = append(c.runtimes, service)
	c.mu.Unlock()

	config := rsmapiv1.ProtocolConfig{
		Partitions: []rsmapiv1.PartitionConfig{
			{
				PartitionID: 1,
				Leader:      fmt.Sprintf("localhost:%d", c.node.Port),
			},
			{
				PartitionID: 2,
				Leader:      fmt.Sprintf("localhost:%d", c.node.Port),
			},
			{
				PartitionID: 3,
				Leader:      fmt.Sprintf("localhost:%d", c.node.Port),
			},
		},
	}

	marshaller := &jsonpb.Marshaler{}
	data, err := marshaller.MarshalToString(&config)
	if err != nil {
		return nil, err
	}
	err = runtime.Connect(ctx, storeID, driverID, &types.Any{
		Value: []byte(data),
	})
	if err != nil {
		return nil, err
	}
	return c.connect(ctx, fmt.Sprintf(":%d", service.Port), tap)
}

func (c *Client) connect(ctx context.Context, target string, tap Tap) (*grpc.ClientConn, error) {
	tapUnary := func(ctx context.Context, method string, req, reply interface{}, cc *grpc.ClientConn, invoker grpc.UnaryInvoker, opts ...grpc.CallOption) error {
		if tap != nil {
			tap(method, false)
		}
		err := invoker(ctx, method, req, reply, cc, opts...)
		if tap != nil {
			tap(method, true)
		}
		return err
	}
	conn, err := grpc.DialContext(ctx, target,
		grpc.WithContextDialer(c.network.Connect),
		grpc.WithTransportCredentials(insecure.NewCredentials()),
		grpc.WithChainUnaryInterceptor(
			tapUnary,
			interceptors.ErrorHandlingUnaryClientInterceptor(),
			interceptors.RetryingUnaryClientInterceptor()),
		grpc.WithChainStreamInterceptor(
			interceptors.ErrorHandlingStreamClientInterceptor(),
			interceptors.RetryingStreamClientInterceptor()))
	if err != nil {
		return nil, err
	}
	return conn, nil
}

func (c *Client) Close() {
	c.mu.Lock()
	defer c.mu.Unlock()
	for _, proxy := range c.runtimes {
		_ = proxy.Stop()
	}
	_ = c.node.Stop()
	_ = os.RemoveAll("test-data")
}

var port = &atomic.Int32{}

func init() {
	port.Store(5000)
}

func nextPort() int {
	return int(port.Add(1))
}
