// SPDX-FileCopyrightText: 2022-present Intel Corporation
//
// SPDX-License-Identifier: Apache-2.0

package atomixtap

import (
	"context"
	runtimeapiv1 "github.com/atomix/atomix/api/runtime/v1"
	rsmapiv1 "github.com/atomix/atomix/protocols/rsm/api/v1"
	"github.com/atomix/atomix/protocols/rsm/pkg/client"
	counterclientv1 "github.com/atomix/atomix/protocols/rsm/pkg/client/counter/v1"
	countermapclientv1 "github.com/atomix/atomix/protocols/rsm/pkg/client/countermap/v1"
	electionclientv1 "github.com/atomix/atomix/protocols/rsm/pkg/client/election/v1"
	indexedmapclientv1 "github.com/atomix/atomix/protocols/rsm/pkg/client/indexedmap/v1"
	lockclientv1 "github.com/atomix/atomix/protocols/rsm/pkg/client/lock/v1"
	mapclientv1 "github.com/atomix/atomix/protocols/rsm/pkg/client/map/v1"
	multimapclientv1 "github.com/atomix/atomix/protocols/rsm/pkg/client/multimap/v1"
	setclientv1 "github.com/atomix/atomix/protocols/rsm/pkg/client/set/v1"
	valueclientv1 "github.com/atomix/atomix/protocols/rsm/pkg/client/value/v1"
	"github.com/atomix/atomix/runtime/pkg/driver"
	"github.com/atomix/atomix/runtime/pkg/network"
	runtimecounterv1 "github.com/atomix/atomix/runtime/pkg/runtime/counter/v1"
	runtimecountermapv1 "github.com/atomix/atomix/runtime/pkg/runtime/countermap/v1"
	runtimeelectionv1 "github.com/atomix/atomix/runtime/pkg/runtime/election/v1"
	runtimeindexedmapv1 "github.com/atomix/atomix/runtime/pkg/runtime/indexedmap/v1"
	runtimelockv1 "github.com/atomix/atomix/runtime/pkg/runtime/lock/v1"
	runtimemapv1 "github.com/atomix/atomix/runtime/pkg/runtime/map/v1"
	runtimemultimapv1 "github.com/atomix/atomix/runtime/pkg/runtime/multimap/v1"
	runtimesetv1 "github.com/atomix/atomix/runtime/pkg/runtime/set/v1"
	runtimevaluev1 "github.com/atomix/atomix/runtime/pkg/runtime/value/v1"
)

var driverID = runtimeapiv1.DriverID{
	Name:       "Test",
	APIVersion: "v1",
}

func newDriver(network network.Driver) driver.Driver {
	return &testDriver{
		network: network,
	}
}

type testDriver struct {
	network network.Driver
}

func (d *testDriver) Connect(ctx context.Context, spec rsmapiv1.ProtocolConfig) (driver.Conn, error) {
	conn := newConn(d.network)
	if err := conn.Connect(ctx, spec); err != nil {
		return nil, err
	}
	return conn, nil
}

func newConn(network network.Driver) *testConn {
	return &testConn{
		ProtocolClient: client.NewClient(network),
	}
}

type testConn struct {
	*client.ProtocolClient
}

func (c *testConn) Connect(ctx context.Context, spec rsmapiv1.ProtocolConfig) error {
	return c.ProtocolClient.Connect(ctx, spec)
}

func (c *testConn) Configure(ctx context.Context, spec rsmapiv1.ProtocolConfig) error {
	return c.ProtocolClient.Configure(ctx, spec)
}

func (c *testConn) NewCounterV1(ctx context.Context, id runtimeapiv1.PrimitiveID) (runtimecounterv1.CounterProxy, error) {
	proxy := counterclientv1.NewCounter(c.Protocol, id)
	if err := proxy.Open(ctx); err != nil {
		return nil, err
	}
	return proxy, nil
}

func (c *testConn) NewCounterMapV1(ctx context.Context, id runtimeapiv1.PrimitiveID) (runtimecountermapv1.CounterMapProxy, error) {
	proxy := countermapclientv1.NewCounterMap(c.Protocol, id)
	if err := proxy.Open(ctx); err != nil {
		return nil, err
	}
	return proxy, nil
}

func (c *testConn) NewLeaderElectionV1(ctx context.Context, id runtimeapiv1.PrimitiveID) (runtimeelectionv1.LeaderElectionProxy, error) {
	proxy := electionclientv1.NewLeaderElection(c.Protocol, id)
	if err := proxy.Open(ctx); err != nil {
		return nil, err
	}
	return proxy, nil
}

func (c *testConn) NewIndexedMapV1(ctx context.Context, id runtimeapiv1.PrimitiveID) (runtimeindexedmapv1.IndexedMapProxy, error) {
	proxy := indexedmapclientv1.NewIndexedMap(c.Protocol, id)
	if err := proxy.Open(ctx); err != nil {
		return nil, err
	}
	return proxy, nil
}

func (c *testConn) NewLockV1(ctx context.Context, id runtimeapiv1.PrimitiveID) (runtimelockv1.LockProxy, error) {
	proxy := lockclientv1.NewLock(c.Protocol, id)
	if err := proxy.Open(ctx); err != nil {
		return nil, err
	}
	return proxy, nil
}

func (c *testConn) NewMapV1(ctx context.Context, id runtimeapiv1.PrimitiveID) (runtimemapv1.MapProxy, error) {
	proxy := mapclientv1.NewMap(c.Protocol, id)
	if err := proxy.Open(ctx); err != nil {
		return nil, err
	}
	return proxy, nil
}

func (c *testConn) NewMultiMapV1(ctx context.Context, id runtimeapiv1.PrimitiveID) (runtimemultimapv1.MultiMapProxy, error) {
	proxy := multimapclientv1.NewMultiMap(c.Protocol, id)
	if err := proxy.Open(ctx); err != nil {
		return nil, err
	}
	return proxy, nil
}

func (c *testConn) NewSetV1(ctx context.Context, id runtimeapiv1.PrimitiveID) (runtimesetv1.SetProxy, error) {
	proxy := setclientv1.NewSet(c.Protocol, id)
	if err := proxy.Open(ctx); err != nil {
		return nil, err
	}
	return proxy, nil
}

func (c *testConn) NewValueV1(ctx context.Context, id runtimeapiv1.PrimitiveID) (runtimevaluev1.ValueProxy, error) {
	proxy := valueclientv1.NewValue(c.Protocol, id)
	if err := proxy.Open(ctx); err != nil {
		return nil, err
	}
	return proxy, nil
}

var _ runtimecounterv1.CounterProvider = (*testConn)(nil)
var _ runtimecountermapv1.CounterMapProvider = (*testConn)(nil)
var _ runtimeelectionv1.LeaderElectionProvider = (*testConn)(nil)
var _ runtimeindexedmapv1.IndexedMapProvider = (*testConn)(nil)
var _ runtimelockv1.LockProvider = (*testConn)(nil)
var _ runtimemapv1.MapProvider = (*testConn)(nil)
var _ runtimemultimapv1.MultiMapProvider = (*testConn)(nil)
var _ runtimesetv1.SetProvider = (*testConn)(nil)
var _ runtimevaluev1.ValueProvider = (*testConn)(nil)
