// SPDX-FileCopyrightText: 2022-present Intel Corporation
//
// SPDX-License-Identifier: Apache-2.0

package atomixtap

import (
	"context"
	rsmapiv1 "github.com/atomix/atomix/protocols/rsm/api/v1"
	"github.com/atomix/atomix/protocols/rsm/pkg/node"
	counternodev1 "github.com/atomix/atomix/protocols/rsm/pkg/node/counter/v1"
	countermapnodev1 "github.com/atomix/atomix/protocols/rsm/pkg/node/countermap/v1"
	electionnodev1 "github.com/atomix/atomix/protocols/rsm/pkg/node/election/v1"
	indexedmapnodev1 "github.com/atomix/atomix/protocols/rsm/pkg/node/indexedmap/v1"
	locknodev1 "github.com/atomix/atomix/protocols/rsm/pkg/node/lock/v1"
	mapnodev1 "github.com/atomix/atomix/protocols/rsm/pkg/node/map/v1"
	multimapnodev1 "github.com/atomix/atomix/protocols/rsm/pkg/node/multimap/v1"
	setnodev1 "github.com/atomix/atomix/protocols/rsm/pkg/node/set/v1"
	valuenodev1 "github.com/atomix/atomix/protocols/rsm/pkg/node/value/v1"
	"github.com/atomix/atomix/protocols/rsm/pkg/statemachine"
	countersmv1 "github.com/atomix/atomix/protocols/rsm/pkg/statemachine/counter/v1"
	countermapsmv1 "github.com/atomix/atomix/protocols/rsm/pkg/statemachine/countermap/v1"
	electionsmv1 "github.com/atomix/atomix/protocols/rsm/pkg/statemachine/election/v1"
	indexedmapsmv1 "github.com/atomix/atomix/protocols/rsm/pkg/statemachine/indexedmap/v1"
	locksmv1 "github.com/atomix/atomix/protocols/rsm/pkg/statemachine/lock/v1"
	mapsmv1 "github.com/atomix/atomix/protocols/rsm/pkg/statemachine/map/v1"
	multimapsmv1 "github.com/atomix/atomix/protocols/rsm/pkg/statemachine/multimap/v1"
	setsmv1 "github.com/atomix/atomix/protocols/rsm/pkg/statemachine/set/v1"
	valuesmv1 "github.com/atomix/atomix/protocols/rsm/pkg/statemachine/value/v1"
	"github.com/atomix/atomix/runtime/pkg/network"
	streams "github.com/atomix/atomix/runtime/pkg/stream"
	"sync"
)

func newNode(network network.Driver, opts ...node.Option) *node.Node {
	node := node.NewNode(network, newProtocol(), opts...)
	counternodev1.RegisterServer(node)
	countermapnodev1.RegisterServer(node)
	electionnodev1.RegisterServer(node)
	indexedmapnodev1.RegisterServer(node)
	locknodev1.RegisterServer(node)
	mapnodev1.RegisterServer(node)
	multimapnodev1.RegisterServer(node)
	setnodev1.RegisterServer(node)
	valuenodev1.RegisterServer(node)
	return node
}

func newProtocol() node.Protocol {
	return &testProtocol{
		partitions: map[rsmapiv1.PartitionID]node.Partition{
			1: node.NewPartition(1, newExecutor()),
			2: node.NewPartition(2, newExecutor()),
			3: node.NewPartition(3, newExecutor()),
		},
	}
}

type testProtocol struct {
	partitions map[rsmapiv1.PartitionID]node.Partition
}

func (p *testProtocol) Partitions() []node.Partition {
	partitions := make([]node.Partition, 0, len(p.partitions))
	for _, partition := range p.partitions {
		partitions = append(partitions, partition)
	}
	return partitions
}

func (p *testProtocol) Partition(partitionID rsmapiv1.PartitionID) (node.Partition, bool) {
	partition, ok := p.partitions[partitionID]
	return partition, ok
}

func newExecutor() node.Executor {
	registry := statemachine.NewPrimitiveTypeRegistry()
	countersmv1.RegisterStateMachine(registry)
	countermapsmv1.RegisterStateMachine(registry)
	electionsmv1.RegisterStateMachine(registry)
	indexedmapsmv1.RegisterStateMachine(registry)
	locksmv1.RegisterStateMachine(registry)
	mapsmv1.RegisterStateMachine(registry)
	multimapsmv1.RegisterStateMachine(registry)
	setsmv1.RegisterStateMachine(registry)
	valuesmv1.RegisterStateMachine(registry)
	return &testExecutor{
		sm: statemachine.NewStateMachine(registry),
	}
}

type testExecutor struct {
	sm statemachine.StateMachine
	mu sync.RWMutex
}

func (e *testExecutor) Propose(ctx context.Context, proposal *rsmapiv1.ProposalInput, stream streams.WriteStream[*rsmapiv1.ProposalOutput]) error {
	e.mu.Lock()
	defer e.mu.Unlock()
	e.sm.Propose(proposal, stream)
	return nil
}

func (e *testExecutor) Query(ctx context.Context, query *rsmapiv1.QueryInput, stream streams.WriteStream[*rsmapiv1.QueryOutput]) error {
	e.mu.RLock()
	defer e.mu.RUnlock()
	e.sm.Query(query, stream)
	return nil
}
