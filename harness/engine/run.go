package engine

import (
	"context"
	"fmt"
	"strings"
	"sync"
	"time"

	"github.com/gogo/protobuf/proto"
	adminapi "github.com/onosproject/onos-api/go/onos/config/admin"
	configapi "github.com/onosproject/onos-api/go/onos/config/v2"
	"github.com/openconfig/gnmi/proto/gnmi"
	"github.com/openconfig/gnmi/proto/gnmi_ext"
	"google.golang.org/grpc/status"

	"verif/fw"
	"verif/refmodel"
	"verif/world"
)

// Call is one northbound client call
type Call struct {
	N        int
	Kind     string // set | rollback
	Ops      []refmodel.Op
	Sync     bool
	RbIndex  uint64
	Inc      int
	done     chan struct{}
	Returned bool
	Resp     *gnmi.SetResponse
	RbResp   *adminapi.RollbackResponse
	Err      error
	ReturnAt int64 // event sequence number at which the call returned
	TxIndex  uint64
	TxID     string
	Open     bool // its process incarnation was killed before it returned
}

// Done is closed when the call has returned
func (c *Call) Done() <-chan struct{} { return c.done }

// HasReturned tells whether the call has returned; it synchronises with the handler goroutine (the fields
// Resp, RbResp, Err, ReturnAt may be read after it said yes)
func (c *Call) HasReturned() bool {
	select {
	case <-c.done:
		return true
	default:
		return false
	}
}

// Name is the task name of the call
func (c *Call) Name() string { return fmt.Sprintf("handler:%s#%d", c.Kind, c.N) }

// Exec is one execution of a scenario
type Exec struct {
	C       *fw.Case
	W       *world.World
	P       *Profile
	Steps   []Step
	Calls   []*Call
	Opts    world.Options
	mu      sync.Mutex
	cancels []context.CancelFunc
	// results of the settle phase
	GoalReached    bool
	slowHeartbeats int
	Stranded       string
	Script         []string
	// SecondCrash, when > 0, arms another kill that many effects after the first restart
	SecondCrash int
	Crashes     int
	// RejectClass is the failure class the model expects for a change the device refuses (default INVALID)
	RejectClass string
	// IdleCheck asks Settle to evaluate C09's first clause before it connects the targets that are still offline:
	// once the controllers have been quiet for longer than their maximum back-off, re-examining every object
	// must change nothing. IdleFinding holds the outcome.
	IdleCheck   bool
	IdleFinding string
}

// SetRequestOf builds the gNMI request for a list of operations
func SetRequestOf(ops []refmodel.Op, sync bool, usePrefixTarget bool, opt ...bool) *gnmi.SetRequest {
	return SetRequestVariant(0, ops, sync, usePrefixTarget, opt...)
}

// SetRequestVariant: variant selects among the placements of accompanying extensions
func SetRequestVariant(variant int, ops []refmodel.Op, sync bool, usePrefixTarget bool, opt ...bool) *gnmi.SetRequest {
	serializable := len(opt) > 0 && opt[0]
	req := &gnmi.SetRequest{}
	single := len(targetsOf(ops)) == 1 && usePrefixTarget
	if single {
		req.Prefix = &gnmi.Path{Target: ops[0].Target}
	}
	// with the replace option the first third of the value operations goes under "replace" (gNMI processes deletes,
	// then replaces, then updates - the same relative order as in ops, which is the order the reference model uses)
	replaceEvery, nReplace := 0, 0
	if len(opt) > 1 && opt[1] {
		replaceEvery = 3
		nVal := 0
		for _, o := range ops {
			if !o.Del {
				nVal++
			}
		}
		nReplace = nVal / 3
	}
	i := -1
	for _, o := range ops {
		if !o.Del {
			i++
		}
		t := o.Target
		if single {
			t = ""
		}
		if o.Del {
			req.Delete = append(req.Delete, o.P.ToGNMI(t))
		} else if replaceEvery > 0 && i < nReplace {
			// a leaf named under "replace" is set like one named under "update"
			req.Replace = append(req.Replace, &gnmi.Update{Path: o.P.ToGNMI(t), Val: o.V.ToGNMI()})
		} else {
			req.Update = append(req.Update, &gnmi.Update{Path: o.P.ToGNMI(t), Val: o.V.ToGNMI()})
		}
	}
	if sync || serializable {
		st := &configapi.TransactionStrategy{}
		if sync {
			st.Synchronicity = configapi.TransactionStrategy_SYNCHRONOUS
		}
		if serializable {
			st.Isolation = configapi.TransactionStrategy_SERIALIZABLE
		}
		b, _ := proto.Marshal(st)
		req.Extension = append(req.Extension, &gnmi_ext.Extension{Ext: &gnmi_ext.Extension_RegisteredExt{
			RegisteredExt: &gnmi_ext.RegisteredExtension{Id: configapi.TransactionStrategyExtensionID, Msg: b}}})
	}
	// extensions that do not concern onos-config (or say nothing) may accompany the request, before or after its own
	if len(opt) > 2 && opt[2] {
		arb := &gnmi_ext.Extension{Ext: &gnmi_ext.Extension_MasterArbitration{MasterArbitration: &gnmi_ext.MasterArbitration{Role: &gnmi_ext.Role{Id: "client"}, ElectionId: &gnmi_ext.Uint128{Low: 1}}}}
		unknown := &gnmi_ext.Extension{Ext: &gnmi_ext.Extension_RegisteredExt{RegisteredExt: &gnmi_ext.RegisteredExtension{Id: 999, Msg: []byte{0xff, 0x01}}}}
		hist := &gnmi_ext.Extension{Ext: &gnmi_ext.Extension_History{History: &gnmi_ext.History{}}}
		noOverrides := &gnmi_ext.Extension{Ext: &gnmi_ext.Extension_RegisteredExt{RegisteredExt: &gnmi_ext.RegisteredExtension{Id: configapi.TargetVersionOverridesID}}}
		switch variant % 4 {
		case 0:
			req.Extension = append([]*gnmi_ext.Extension{arb}, req.Extension...)
		case 1:
			req.Extension = append([]*gnmi_ext.Extension{unknown, noOverrides}, req.Extension...)
		case 2:
			req.Extension = append(req.Extension, hist)
		case 3:
			req.Extension = append(append([]*gnmi_ext.Extension{hist}, req.Extension...), arb)
		}
	}
	return req
}

func (e *Exec) caseIndex() int {
	if e.C == nil {
		return 0
	}
	return e.C.Index
}

func targetsOf(ops []refmodel.Op) []string {
	seen := map[string]bool{}
	var out []string
	for _, o := range ops {
		if !seen[o.Target] {
			seen[o.Target] = true
			out = append(out, o.Target)
		}
	}
	return out
}

// IssueSet starts a Set call in its own goroutine (own context, cancelled on return as gRPC does)
func (e *Exec) IssueSet(ops []refmodel.Op, sync bool, opt ...bool) *Call {
	serializable := len(opt) > 0 && opt[0]
	inc := e.W.Cur()
	call := &Call{N: len(e.Calls) + 1, Kind: "set", Ops: ops, Sync: sync, Inc: inc.N, done: make(chan struct{})}
	e.Calls = append(e.Calls, call)
	req := SetRequestVariant((call.N+e.caseIndex())/5, ops, sync, call.N%3 == 0, serializable, call.N%2 == 0, (call.N+e.caseIndex())%5 < 2)
	ctx, cancel := context.WithCancel(context.Background())
	e.mu.Lock()
	e.cancels = append(e.cancels, cancel)
	e.mu.Unlock()
	go func() {
		defer world.SetTask("handler", fmt.Sprintf("%s#%d", call.Kind, call.N))()
		resp, err := inc.Server.Set(ctx, req)
		cancel()
		call.Resp, call.Err = resp, err
		call.ReturnAt = e.W.Mark("call.return " + call.Name())
		call.Returned = true
		close(call.done)
	}()
	return call
}

// IssueRollback starts a rollback call
func (e *Exec) IssueRollback(index uint64) *Call {
	inc := e.W.Cur()
	call := &Call{N: len(e.Calls) + 1, Kind: "rollback", RbIndex: index, Sync: true, Inc: inc.N, done: make(chan struct{})}
	e.Calls = append(e.Calls, call)
	ctx, cancel := context.WithCancel(context.Background())
	e.mu.Lock()
	e.cancels = append(e.cancels, cancel)
	e.mu.Unlock()
	go func() {
		defer world.SetTask("handler", fmt.Sprintf("%s#%d", call.Kind, call.N))()
		resp, err := inc.Admin.RollbackTransaction(ctx, &adminapi.RollbackRequest{Index: configapi.Index(index)})
		cancel()
		call.RbResp, call.Err = resp, err
		call.ReturnAt = e.W.Mark("call.return " + call.Name())
		call.Returned = true
		close(call.done)
	}()
	return call
}

// waitLogged waits until the call has created its transaction or returned (bounded; only used to keep rollbacks meaningful)
func (e *Exec) waitLogged(c *Call, d time.Duration) {
	deadline := time.Now().Add(d)
	for time.Now().Before(deadline) {
		select {
		case <-c.done:
			return
		default:
		}
		if e.txOfCall(c) != nil {
			return
		}
		time.Sleep(200 * time.Microsecond)
	}
}

func (e *Exec) txOfCall(c *Call) *configapi.Transaction {
	for _, ev := range e.W.Events() {
		if ev.Kind == "tx.Create" && ev.OK && ev.Task == c.Name() {
			return ev.Tx
		}
	}
	return nil
}

func (e *Exec) logLen() int {
	txs, err := e.W.Cur().RawTxs.List(context.Background())
	if err != nil {
		return 0
	}
	return len(txs)
}

func (e *Exec) script(format string, args ...interface{}) {
	s := fmt.Sprintf(format, args...)
	e.Script = append(e.Script, s)
	e.C.Tracef("%s", s)
}

// RunSteps executes the scenario steps
func (e *Exec) RunSteps() {
	r := e.C.Rng.Fork("run")
	for _, st := range e.Steps {
		switch st.Kind {
		case "connect":
			if !e.W.Connected(st.Target) {
				e.script("CONNECT %s -> %s", st.Target, e.W.Connect(st.Target))
			}
		case "disconnect":
			if e.W.Connected(st.Target) {
				e.script("DISCONNECT %s", st.Target)
				e.W.Disconnect(st.Target)
			}
		case "replace-conn":
			if e.W.Connected(st.Target) {
				e.W.Disconnect(st.Target)
				e.script("REPLACE-CONN %s -> %s", st.Target, e.W.Connect(st.Target))
			}
		case "foreign-relation":
			id, on := e.W.ForeignRelation(st.Target)
			e.script("FOREIGN-RELATION %s %s present=%v", st.Target, id, on)
		case "restart-empty":
			// a device restart always takes its connection with it, as with a real gRPC channel
			was := e.W.Connected(st.Target)
			e.W.Disconnect(st.Target)
			e.W.Devices[st.Target].RestartEmpty()
			e.W.Mark("env.device-restart " + st.Target)
			if was || r.Chance(1, 2) {
				e.script("RESTART-EMPTY %s -> %s", st.Target, e.W.Connect(st.Target))
			} else {
				e.script("RESTART-EMPTY %s (stays offline)", st.Target)
			}
		case "dev-fault":
			e.script("DEV-FAULT %s %v", st.Target, st.Codes)
			e.W.Devices[st.Target].FailNext(st.Codes...)
		case "crash":
			if st.CrashRPC {
				e.script("CRASH armed: before Atomix write +%d", st.CrashK)
				e.W.CrashBeforeRPC(e.W.RPCWrites() + int64(st.CrashK))
			} else {
				e.script("CRASH armed: before effect +%d", st.CrashK)
				e.W.CrashBeforeEffect(e.W.Effects() + int64(st.CrashK))
			}
		case "set":
			e.checkCrash()
			c := e.IssueSet(st.Ops, st.Sync, st.Serializable)
			e.script("%s %s", c.Name(), st.String())
			if !st.NoWait {
				e.awaitOrCrash(c)
			} else {
				e.waitLogged(c, 2*time.Second)
			}
		case "rollback":
			e.checkCrash()
			n := e.logLen()
			idx := uint64(n)
			switch st.RbMode {
			case "random":
				if n > 0 {
					idx = uint64(1 + st.RbArg%n)
				}
			case "nonexistent":
				idx = uint64(n + 1000 + st.RbArg%3)
			case "index":
				idx = uint64(st.RbArg)
			case "latest-change":
				idx = e.latestLiveChange()
			}
			if idx == 0 {
				continue
			}
			c := e.IssueRollback(idx)
			e.script("%s rollback(%s -> index %d)", c.Name(), st.RbMode, idx)
			if !st.NoWait {
				e.awaitOrCrash(c)
			} else {
				e.waitLogged(c, 2*time.Second)
			}
		}
	}
}

// awaitOrCrash waits for the reply, unless the process is killed or every target the call needs is offline
func (e *Exec) awaitOrCrash(c *Call) {
	t := time.NewTimer(1500 * time.Millisecond)
	defer t.Stop()
	select {
	case <-c.done:
	case <-e.W.Crashed:
		e.handleCrash()
	case <-t.C:
		// the reply may legitimately be pending (offline target for a synchronous call): carry on, the call stays open
	}
}

func (e *Exec) checkCrash() {
	select {
	case <-e.W.Crashed:
		e.handleCrash()
	default:
	}
}

func (e *Exec) handleCrash() {
	// calls in flight in the killed incarnation are open: they may or may not have been logged
	var reconnect []string
	for t := range e.W.Devices {
		if e.W.Connected(t) {
			reconnect = append(reconnect, t)
		}
	}
	for _, c := range e.Calls {
		if !c.HasReturned() {
			c.Open = true
		}
	}
	e.script("PROCESS KILLED; restarting (reconnecting %v)", reconnect)
	e.Crashes++
	e.W.CrashBeforeEffect(0)
	e.W.CrashBeforeRPC(0)
	if e.SecondCrash > 0 && e.Crashes == 1 {
		e.W.CrashBeforeEffect(e.W.Effects() + int64(e.SecondCrash))
	}
	if err := e.W.Restart(e.Opts, reconnect); err != nil {
		e.C.Inconclusive("restart failed: " + err.Error())
	}
}

// TxState summarises the stores
type TxState struct {
	Txs   []*configapi.Transaction
	Props []*configapi.Proposal
	Cfgs  []*configapi.Configuration
}

// Snapshot reads all records through the raw (undecorated) stores
func (e *Exec) Snapshot() *TxState {
	ctx := context.Background()
	inc := e.W.Cur()
	s := &TxState{}
	s.Txs, _ = inc.RawTxs.List(ctx)
	s.Props, _ = inc.RawPr.List(ctx)
	s.Cfgs, _ = inc.RawCf.List(ctx)
	return s
}

func propTerminal(p *configapi.Proposal) bool {
	ph := p.Status.Phases
	if ph.Apply != nil && (ph.Apply.State == configapi.ProposalApplyPhase_APPLIED || ph.Apply.State == configapi.ProposalApplyPhase_FAILED) {
		return true
	}
	if ph.Abort != nil && ph.Abort.State == configapi.ProposalAbortPhase_ABORTED {
		return true
	}
	return false
}

// goal: every transaction and proposal terminal, every configuration synchronized with the live connection
func (e *Exec) goal(s *TxState) (bool, string) {
	for _, t := range s.Txs {
		if t.Status.State != configapi.TransactionStatus_APPLIED && t.Status.State != configapi.TransactionStatus_FAILED {
			return false, fmt.Sprintf("transaction %d is %s", t.Index, t.Status.State)
		}
		if t.Status.State == configapi.TransactionStatus_FAILED && t.Status.Phases.Abort != nil && t.Status.Phases.Abort.State != configapi.TransactionAbortPhase_ABORTED {
			return false, fmt.Sprintf("transaction %d is still aborting", t.Index)
		}
	}
	for _, p := range s.Props {
		if !propTerminal(p) {
			return false, fmt.Sprintf("proposal %s is not terminal: %s", p.ID, PhaseString(p))
		}
	}
	for _, c := range s.Cfgs {
		cur := e.W.Cur().Conns.Current(string(c.TargetID))
		if c.Status.State != configapi.ConfigurationStatus_SYNCHRONIZED || c.Status.Applied.Mastership.Term != c.Status.Mastership.Term || c.Status.Mastership.Master != cur {
			return false, fmt.Sprintf("configuration %s is %s term %d/%d master %q (live connection %q)", c.ID, c.Status.State, c.Status.Mastership.Term, c.Status.Applied.Mastership.Term, c.Status.Mastership.Master, cur)
		}
		var rel []string
		for _, x := range e.W.Topo.Relations(string(c.TargetID)) {
			if !strings.HasPrefix(x, "conn-foreign-") { // another node's relation is not this node's to clean up
				rel = append(rel, x)
			}
		}
		if len(rel) != 1 || rel[0] != cur {
			return false, fmt.Sprintf("relations of %s are %v (live connection %q)", c.TargetID, rel, cur)
		}
	}
	return true, ""
}

// PhaseString renders a proposal's phases
func PhaseString(p *configapi.Proposal) string {
	ph := p.Status.Phases
	s := fmt.Sprintf("prev=%d next=%d", p.Status.PrevIndex, p.Status.NextIndex)
	if ph.Initialize != nil {
		s += " I=" + ph.Initialize.State.String()
	}
	if ph.Validate != nil {
		s += " V=" + ph.Validate.State.String()
	}
	if ph.Commit != nil {
		s += " C=" + ph.Commit.State.String()
	}
	if ph.Abort != nil {
		s += " Ab=" + ph.Abort.State.String()
	}
	if ph.Apply != nil {
		s += " Ap=" + ph.Apply.State.String()
	}
	return s
}

// Settle connects every target, lets pending fault bursts drain and waits until the goal is reached
// or the system has been stable (no successful write, no device request) for longer than the
// controllers' maximum retry back-off.
func (e *Exec) Settle(stableFor, maxWait time.Duration) {
	e.checkCrash()
	if e.IdleCheck && e.Crashes == 0 {
		offline := false
		for t := range e.W.Devices {
			if !e.W.Connected(t) {
				offline = true
			}
		}
		if offline {
			e.idleFixedPoint(6*time.Second, 40*time.Second)
		}
	}
	for t := range e.W.Devices {
		if !e.W.Connected(t) {
			e.script("FINAL CONNECT %s -> %s", t, e.W.Connect(t))
		}
	}
	start := time.Now()
	why := ""
	lastIter := time.Now()
	for {
		// load watchdog: if this loop itself was not scheduled for a quarter of a second the controllers' timers
		// may have been late as well, so the stability window starts again (a starved machine never produces
		// a "stranded" verdict; it ends in the inconclusive maxWait instead)
		if time.Since(lastIter) > 250*time.Millisecond {
			e.W.InjectedFault()
		}
		lastIter = time.Now()
		select {
		case <-e.W.Crashed:
			e.handleCrash()
			for t := range e.W.Devices {
				if !e.W.Connected(t) {
					e.W.Connect(t)
				}
			}
		default:
		}
		var ok bool
		t0 := time.Now()
		snap := e.Snapshot()
		// the reads of this loop double as a heartbeat of the substrate: when listing the three stores takes longer
		// than 250 ms, or a store RPC of the system under test has been in flight for that long, the machine is starved
		// and the controllers are slow, not silent
		if time.Since(t0) > 250*time.Millisecond || e.W.OldestRPCInFlight() > 250*time.Millisecond {
			e.W.InjectedFault()
			e.slowHeartbeats++
		}
		ok, why = e.goal(snap)
		if ok {
			e.GoalReached = true
			break
		}
		if e.W.SinceLastChange() > stableFor {
			// the snapshot judged above may be older than the quiet window (on a starved machine reading the stores
			// takes seconds): judge a snapshot that was taken entirely inside it
			w0 := e.W.Writes()
			t1 := time.Now()
			snap2 := e.Snapshot()
			if time.Since(t1) > 250*time.Millisecond {
				e.W.InjectedFault()
				continue
			}
			ok, why = e.goal(snap2)
			if ok {
				e.GoalReached = true
				break
			}
			if e.W.Writes() == w0 && e.W.SinceLastChange() > stableFor {
				break
			}
			continue
		}
		if time.Since(start) > maxWait {
			e.C.Inconclusive("system still writing after " + maxWait.String() + ": " + why)
			return
		}
		time.Sleep(2 * time.Millisecond)
	}
	if !e.GoalReached {
		e.Stranded = why
	}
	// give the handlers the chance to return (they are woken by the same store events)
	deadline := time.Now().Add(3 * time.Second)
	for _, c := range e.Calls {
		if c.Open {
			continue
		}
		select {
		case <-c.done:
		case <-time.After(time.Until(deadline)):
		}
	}
}

// waitQuiet waits until nothing has succeeded for the given window (restarted when this loop was starved)
func (e *Exec) waitQuiet(quiet, maxWait time.Duration) bool {
	start := time.Now()
	lastIter := time.Now()
	for e.W.SinceLastChange() <= quiet {
		if time.Since(lastIter) > quiet/2 {
			e.W.InjectedFault()
		}
		lastIter = time.Now()
		if time.Since(start) > maxWait {
			return false
		}
		time.Sleep(2 * time.Millisecond)
	}
	return true
}

// idleFixedPoint waits until the system has been quiet for the given window (no successful write, device request,
// environment action or injected fault; the window restarts when this loop itself was starved), then re-examines
// every object with fresh reconcilers and compares the records before and after
func (e *Exec) idleFixedPoint(quiet, maxWait time.Duration) {
	start := time.Now()
	lastIter := time.Now()
	for e.W.SinceLastChange() <= quiet {
		if time.Since(lastIter) > 250*time.Millisecond {
			e.W.InjectedFault()
		}
		lastIter = time.Now()
		if time.Since(start) > maxWait {
			return // never quiet: nothing to judge
		}
		select {
		case <-e.W.Crashed:
			return
		default:
		}
		time.Sleep(2 * time.Millisecond)
	}
	pending := e.retryPossiblyPending(quiet)
	before := StateString(e.Snapshot())
	reqs := e.devReqs()
	e.ReconcileEverything()
	after := StateString(e.Snapshot())
	e.C.Count("idle_fixed_point_passes_with_a_target_offline", 1)
	if (before != after || e.devReqs() != reqs) && pending {
		e.C.Count("fixed_point_passes_not_judged_retry_possibly_pending", 1)
		return
	}
	if before != after || e.devReqs() != reqs {
		e.IdleFinding = fmt.Sprintf("with a target offline the controllers had been idle for %s, yet re-examining the objects changed the state:\n before %s\n after  %s", quiet, before, after)
	}
}

// CancelAll cancels the contexts of calls that are still open
func (e *Exec) CancelAll() {
	e.mu.Lock()
	for _, c := range e.cancels {
		c()
	}
	e.mu.Unlock()
}

// ErrClass returns the gRPC code name of an error
func ErrClass(err error) string {
	if err == nil {
		return "OK"
	}
	return status.Code(err).String()
}

// latestLiveChange is the runner's own (approximate) idea of the newest change that was answered OK and has not
// been rolled back by a rollback that was answered OK; it only steers the generator towards deep rollback chains
func (e *Exec) latestLiveChange() uint64 {
	rolled := map[uint64]bool{}
	var best uint64
	for _, c := range e.Calls {
		if c.HasReturned() && c.Err == nil && c.Kind == "rollback" {
			rolled[c.RbIndex] = true
		}
	}
	for _, c := range e.Calls {
		if c.Kind != "set" || !c.HasReturned() || c.Err != nil {
			continue
		}
		for _, x := range c.Resp.GetExtension() {
			if r := x.GetRegisteredExt(); r != nil && r.Id == configapi.TransactionInfoExtensionID {
				ti := &configapi.TransactionInfo{}
				if ti.Unmarshal(r.Msg) == nil && !rolled[uint64(ti.Index)] && uint64(ti.Index) > best {
					best = uint64(ti.Index)
				}
			}
		}
	}
	if best == 0 {
		return uint64(e.logLen())
	}
	return best
}
