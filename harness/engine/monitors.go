package engine

import (
	"context"
	"encoding/hex"
	"fmt"
	"math"
	"sort"
	"strconv"
	"strings"
	"time"

	configapi "github.com/onosproject/onos-api/go/onos/config/v2"
	cfgctl "github.com/onosproject/onos-config/pkg/controller/v2/configuration"
	mstctl "github.com/onosproject/onos-config/pkg/controller/v2/mastership"
	propctl "github.com/onosproject/onos-config/pkg/controller/v2/proposal"
	txctl "github.com/onosproject/onos-config/pkg/controller/v2/transaction"
	"github.com/onosproject/onos-lib-go/pkg/controller"

	"verif/refmodel"
	"verif/world"
)

// ValOfAPI converts an onos-api typed value to the reference notation (uses only the API module's accessors)
func ValOfAPI(tv *configapi.TypedValue) refmodel.Val {
	switch tv.Type {
	case configapi.ValueType_EMPTY:
		return "e:"
	case configapi.ValueType_STRING:
		return refmodel.S(string(tv.Bytes))
	case configapi.ValueType_INT:
		return refmodel.Val("i:" + (*configapi.TypedInt)(tv).String())
	case configapi.ValueType_UINT:
		return refmodel.Val("u:" + (*configapi.TypedUint)(tv).String())
	case configapi.ValueType_BOOL:
		return refmodel.Val("b:" + strconv.FormatBool((*configapi.TypedBool)(tv).Bool()))
	case configapi.ValueType_BYTES:
		return refmodel.Val("y:" + hex.EncodeToString((*configapi.TypedBytes)(tv).ByteArray()))
	case configapi.ValueType_DECIMAL:
		d, p := (*configapi.TypedDecimal)(tv).Decimal64()
		return refmodel.Val(fmt.Sprintf("d:%d:%d", d, p))
	case configapi.ValueType_FLOAT:
		return refmodel.Val(fmt.Sprintf("f:%08x", math.Float32bits((*configapi.TypedFloat)(tv).Float32())))
	case configapi.ValueType_LEAFLIST_STRING:
		var parts []string
		for _, s := range (*configapi.TypedLeafListString)(tv).List() {
			parts = append(parts, "s:"+s)
		}
		return refmodel.Val("l:" + strings.Join(parts, "\x1f"))
	case configapi.ValueType_LEAFLIST_INT:
		l, _ := (*configapi.TypedLeafListInt)(tv).List()
		var parts []string
		for _, x := range l {
			parts = append(parts, "i:"+strconv.FormatInt(x, 10))
		}
		return refmodel.Val("l:" + strings.Join(parts, "\x1f"))
	case configapi.ValueType_LEAFLIST_UINT:
		l, _ := (*configapi.TypedLeafListUint)(tv).List()
		var parts []string
		for _, x := range l {
			parts = append(parts, "u:"+strconv.FormatUint(x, 10))
		}
		return refmodel.Val("l:" + strings.Join(parts, "\x1f"))
	case configapi.ValueType_LEAFLIST_BOOL:
		var parts []string
		for _, x := range (*configapi.TypedLeafListBool)(tv).List() {
			parts = append(parts, "b:"+strconv.FormatBool(x))
		}
		return refmodel.Val("l:" + strings.Join(parts, "\x1f"))
	case configapi.ValueType_LEAFLIST_BYTES:
		var parts []string
		for _, x := range (*configapi.TypedLeafListBytes)(tv).List() {
			parts = append(parts, "y:"+hex.EncodeToString(x))
		}
		return refmodel.Val("l:" + strings.Join(parts, "\x1f"))
	case configapi.ValueType_LEAFLIST_DECIMAL:
		digits, p := (*configapi.TypedLeafListDecimal)(tv).List()
		var parts []string
		for _, d := range digits {
			parts = append(parts, fmt.Sprintf("d:%d:%d", d, p))
		}
		return refmodel.Val("l:" + strings.Join(parts, "\x1f"))
	case configapi.ValueType_LEAFLIST_FLOAT:
		var parts []string
		for _, f := range (*configapi.TypedLeafListFloat)(tv).List() {
			parts = append(parts, fmt.Sprintf("f:%08x", math.Float32bits(f)))
		}
		return refmodel.Val("l:" + strings.Join(parts, "\x1f"))
	}
	return refmodel.Val("?:" + tv.ValueToString())
}

// LiveLeaves converts stored path values into a tree of live (non-deleted) leaves
func LiveLeaves(values map[string]*configapi.PathValue) (refmodel.Tree, []string) {
	t := refmodel.Tree{}
	var problems []string
	for k, pv := range values {
		if pv == nil || pv.Deleted {
			continue
		}
		p, err := refmodel.Parse(pv.Path)
		if err != nil {
			problems = append(problems, fmt.Sprintf("unparsable stored path %q", pv.Path))
			continue
		}
		if k != pv.Path {
			problems = append(problems, fmt.Sprintf("stored under key %q but says path %q", k, pv.Path))
		}
		t.Set(p, ValOfAPI(&pv.Value))
	}
	return t, problems
}

func proposalIndexOf(task string) (target string, index uint64, ok bool) {
	if !strings.HasPrefix(task, "proposal:") {
		return "", 0, false
	}
	id := strings.TrimPrefix(task, "proposal:")
	i := strings.LastIndex(id, "-")
	if i < 0 {
		return "", 0, false
	}
	n, err := strconv.ParseUint(id[i+1:], 10, 64)
	if err != nil {
		return "", 0, false
	}
	return id[:i], n, true
}

// monitorOrder: C02 – merge order, push order, push-after-merge, status indexes monotone
func (e *Exec) monitorOrder(j *Judgement, events []*world.Event) {
	props := []string{"C02", "C07"}
	lastMerged := map[string]uint64{}
	merged := map[string]map[uint64]bool{}
	applied := map[string]uint64{}
	proposalsOf := map[string][]uint64{}
	lastPush := map[string]uint64{}
	type idx struct{ p, c, a uint64 }
	byVersion := map[string]map[uint64]idx{}
	inflight := map[string]map[uint64]bool{}
	answered := map[string]map[uint64]bool{} // target -> index -> the device accepted or refused that proposal's request
	for _, ev := range events {
		switch {
		case ev.Kind == "prop.Create" && ev.OK:
			t := string(ev.Prop.TargetID)
			proposalsOf[t] = append(proposalsOf[t], uint64(ev.Prop.TransactionIndex))
			if inflight[t] == nil {
				inflight[t] = map[uint64]bool{}
			}
			if len(inflight[t]) > 0 {
				e.C.Count("overlapping_proposal_pairs", int64(len(inflight[t])))
			}
			inflight[t][uint64(ev.Prop.TransactionIndex)] = true
		case ev.Kind == "prop.UpdateStatus" && ev.OK:
			if propTerminal(ev.Prop) {
				delete(inflight[string(ev.Prop.TargetID)], uint64(ev.Prop.TransactionIndex))
			}
		case strings.HasPrefix(ev.Kind, "cfg.") && ev.OK && ev.Cfg != nil:
			t := ev.Target
			s := ev.Cfg.Status
			if byVersion[t] == nil {
				byVersion[t] = map[uint64]idx{}
			}
			byVersion[t][ev.Cfg.Version] = idx{uint64(s.Proposed.Index), uint64(s.Committed.Index), uint64(s.Applied.Index)}
			if uint64(s.Applied.Index) > applied[t] {
				applied[t] = uint64(s.Applied.Index)
			}
			if ev.Kind == "cfg.Update" {
				e.C.Count("merges_observed", 1)
				ci := uint64(s.Committed.Index)
				if ci <= lastMerged[t] {
					j.add("order", props, "order/merge-out-of-order", "target %s: merge for index %d written after the merge for index %d (event #%d by %s)", t, ci, lastMerged[t], ev.Seq, ev.Task)
				}
				lastMerged[t] = ci
				if merged[t] == nil {
					merged[t] = map[uint64]bool{}
				}
				merged[t][ci] = true
				if tt, pj, ok := proposalIndexOf(ev.Task); ok && (tt != t || pj != ci) {
					j.add("order", props, "order/merge-by-wrong-proposal", "target %s: merge for index %d written by %s", t, ci, ev.Task)
				}
			}
		case ev.Kind == "dev.Set" && ev.Dev != nil && ev.Dev.Outcome != "offline":
			t := ev.Target
			if tt, pj, ok := proposalIndexOf(ev.Task); ok && tt == t {
				e.C.Count("proposal_pushes_observed", 1)
				if !merged[t][pj] {
					j.add("order", props, "order/push-before-merge", "target %s: the change of transaction %d was sent to the device (event #%d) before it was merged into the stored configuration", t, pj, ev.Seq)
				}
				if pj < lastPush[t] {
					j.add("order", props, "order/push-out-of-order", "target %s: transaction %d sent to the device after transaction %d", t, pj, lastPush[t])
				}
				if pj > lastPush[t] {
					lastPush[t] = pj
				}
				var prev uint64
				for _, i := range proposalsOf[t] {
					if i < pj && i > prev {
						prev = i
					}
				}
				if applied[t] < prev {
					j.add("order", props, "order/push-before-predecessor-finished", "target %s: transaction %d sent to the device (event #%d) while transaction %d had not finished applying (applied index %d)", t, pj, ev.Seq, prev, applied[t])
				}
				// "finished applying" as the device saw it: every earlier change that was merged into the stored
				// configuration has been answered by the device (accepted or refused) before a later one is sent
				for mj := range merged[t] {
					if mj < pj && !answered[t][mj] {
						j.add("order", props, "order/push-skipped-predecessor", "target %s: transaction %d was sent to the device (event #%d) although the earlier transaction %d, merged into the stored configuration, had never been accepted or refused by the device", t, pj, ev.Seq, mj)
						break
					}
				}
				if ev.Dev.Outcome == "applied" || strings.HasPrefix(ev.Dev.Outcome, "rejected") {
					if answered[t] == nil {
						answered[t] = map[uint64]bool{}
					}
					answered[t][pj] = true
				}
			} else if strings.HasPrefix(ev.Task, "configuration:") && ev.ReadCfg != nil {
				e.C.Count("resync_pushes_observed", 1)
			}
		}
	}
	// re-synchronisation pushes of one reconcile run must go out in ascending transaction-index order
	type grp struct {
		ser   int64
		idxs  []uint64
		ops   [][]refmodel.Op
		tgt   string
		first int64
	}
	groups := map[int64]*grp{}
	for _, ev := range events {
		if ev.Kind == "dev.Set" && strings.HasPrefix(ev.Task, "configuration:") && ev.ReadCfg != nil && ev.Dev != nil && len(ev.Dev.Ops) > 0 {
			g := groups[ev.TaskSer]
			if g == nil {
				g = &grp{ser: ev.TaskSer, tgt: ev.Target, first: ev.Seq}
				groups[ev.TaskSer] = g
			}
			var ix uint64
			if pv := ev.ReadCfg.Status.Applied.Values[ev.Dev.Ops[0].P.String()]; pv != nil {
				ix = uint64(pv.Index)
			}
			g.idxs = append(g.idxs, ix)
			g.ops = append(g.ops, ev.Dev.Ops)
		}
	}
	for _, g := range groups {
		for a := 1; a < len(g.idxs); a++ {
			if g.idxs[a] < g.idxs[a-1] {
				conflict := false
				for _, x := range g.ops[a] {
					for _, y := range g.ops[a-1] {
						if x.P.Under(y.P) || y.P.Under(x.P) {
							conflict = true
						}
					}
				}
				p := []string{"C02"}
				key := "order/resync-descending"
				if conflict {
					p = append(p, "C04")
					key = "order/resync-descending-conflicting"
				}
				j.add("order", p, key, "target %s: re-synchronisation sent the values of transaction %d after those of transaction %d", g.tgt, g.idxs[a], g.idxs[a-1])
				break
			}
		}
	}
	for t, vs := range byVersion {
		var versions []uint64
		for v := range vs {
			versions = append(versions, v)
		}
		sort.Slice(versions, func(a, b int) bool { return versions[a] < versions[b] })
		var last idx
		for _, v := range versions {
			x := vs[v]
			if x.p < last.p || x.c < last.c || x.a < last.a {
				j.add("order", props, "order/status-index-decreased", "target %s: status indexes went from proposed/committed/applied %v to %v at version %d", t, last, x, v)
			}
			if x.a > x.c || x.c > x.p {
				j.add("order", props, "order/status-index-order", "target %s: applied %d <= committed %d <= proposed %d violated at version %d", t, x.a, x.c, x.p, v)
			}
			last = x
		}
	}
}

// monitorAtomic: C01 – the set of targets into which a transaction was merged is all of its targets or none
func (e *Exec) monitorAtomic(j *Judgement, events []*world.Event) {
	// (the rule "the transaction says COMMITTED => its merges are in the log" needs a log at least as recent as
	// the snapshot of the records, which Judge took after it copied the log)
	events = e.W.Events()
	mergedInto := map[uint64]map[string]bool{}
	for _, ev := range events {
		if ev.Kind == "cfg.Update" && ev.OK && ev.Cfg != nil {
			i := uint64(ev.Cfg.Status.Committed.Index)
			if mergedInto[i] == nil {
				mergedInto[i] = map[string]bool{}
			}
			mergedInto[i][ev.Target] = true
		}
	}
	// what the system itself says about each transaction: COMMITTED / APPLIED assert that every proposal was merged
	saysMerged := map[uint64]bool{}
	isRollback := map[uint64]bool{}
	if j.State != nil {
		for _, t := range j.State.Txs {
			if t.Status.State == configapi.TransactionStatus_COMMITTED || t.Status.State == configapi.TransactionStatus_APPLIED {
				saysMerged[uint64(t.Index)] = true
			}
			if t.GetRollback() != nil {
				isRollback[uint64(t.Index)] = true
			}
		}
	}
	for idx, out := range j.Outs {
		n := len(mergedInto[idx])
		if len(out.Targets) > 1 {
			e.C.Count("multi_target_transactions", 1)
			if !out.Committed {
				e.C.Count("multi_target_aborted", 1)
			}
		}
		if !out.Committed && n > 0 {
			props := []string{"C05"}
			if len(out.Targets) > 1 {
				props = append(props, "C01")
			}
			j.add("atomic", props, "atomic/merged-although-rejected", "transaction %d must not commit (%s) but was merged into %v", idx, out.Reason, keys(mergedInto[idx]))
		}
		if out.Committed && (e.GoalReached || saysMerged[idx]) && n != len(out.Targets) {
			props := []string{"C07"}
			if len(out.Targets) > 1 {
				props = append(props, "C01")
			}
			if isRollback[idx] {
				props = append(props, "C06")
			}
			j.add("atomic", props, "atomic/partial-merge", "transaction %d names %v but was merged into %v only", idx, out.Targets, keys(mergedInto[idx]))
		}
	}
}

// monitorValidated: C05 – every merge writes exactly the leaves of a document the plugin accepted for that proposal
func (e *Exec) monitorValidated(j *Judgement, events []*world.Event) {
	accepted := map[string]*world.PluginDoc{}
	for _, ev := range events {
		switch {
		case ev.Kind == "plugin.Validate" && ev.Doc != nil:
			e.C.Count("plugin_documents", 1)
			if len(ev.Doc.Problem) > 0 {
				j.add("validated", []string{"C05", "C18"}, "validated/malformed-document", "document sent to the plugin by %s is malformed: %v", ev.Task, ev.Doc.Problem)
			}
			if ev.Doc.Valid {
				accepted[ev.Task] = ev.Doc
			} else {
				e.C.Count("plugin_rejections", 1)
				delete(accepted, ev.Task)
			}
		case ev.Kind == "cfg.Update" && ev.OK && ev.Cfg != nil:
			doc := accepted[ev.Task]
			if doc == nil {
				j.add("validated", []string{"C05"}, "validated/merge-without-accepted-document", "target %s: %s merged index %d without a document accepted by the model plugin", ev.Target, ev.Task, ev.Cfg.Status.Committed.Index)
				continue
			}
			live, problems := LiveLeaves(ev.Cfg.Values)
			if len(problems) > 0 {
				j.add("validated", []string{"C05", "C16"}, "validated/stored-path-problem", "target %s: %v", ev.Target, problems)
			}
			a := doc.Leaves.WithoutKeyLeaves(e.W.Schema)
			b := live.WithoutKeyLeaves(e.W.Schema)
			e.C.Count("merges_compared_with_document", 1)
			if d := b.Diff(a); len(d) > 0 {
				j.add("validated", []string{"C05"}, "validated/merge-differs-from-document/"+classifyDiff(d), "target %s index %d: the merged configuration differs from the document the plugin accepted for %s: %v", ev.Target, ev.Cfg.Status.Committed.Index, ev.Task, d)
			}
		}
	}
}

// monitorPush: what a proposal sends to the device is the change its request named for that target - the same
// updates with the same values, and deletes of the named paths (plus, possibly, of paths beneath them: the cascade) -
// whatever later transactions do to the device afterwards (the end-state comparison cannot see a wrong push that a
// later one repairs). Rollbacks are judged by the end state only.
func (e *Exec) monitorPush(j *Judgement, events []*world.Event) {
	props := []string{"C04", "C16", "C17"}
	for _, ev := range events {
		if ev.Kind != "dev.Set" || ev.Dev == nil || ev.Dev.Outcome == "offline" {
			continue
		}
		t, idx, ok := proposalIndexOf(ev.Task)
		if !ok {
			continue
		}
		c := j.CallOf[idx]
		if c == nil || c.Kind != "set" {
			continue
		}
		wantUp := map[string]refmodel.Val{}
		var wantDel []refmodel.Path
		for _, o := range c.Ops {
			if o.Target != t {
				continue
			}
			p := o.P
			if n := e.W.Schema.NodeOf(p); o.Del && n != nil && n.IsKeyLeaf() {
				p = p.Parent() // a key-leaf delete addresses its entry
			}
			if o.Del {
				wantDel = append(wantDel, p)
			} else {
				wantUp[p.String()] = o.V
			}
		}
		e.C.Count("proposal_pushes_compared_with_request", 1)
		gotUp := map[string]bool{}
		for _, o := range ev.Dev.Ops {
			ps := o.P.String()
			if !o.Del {
				gotUp[ps] = true
				if w, ok := wantUp[ps]; !ok {
					j.add("push", props, "push/update-not-in-request", "target %s: %s sent an update of %s, which transaction %d does not contain", t, ev.Task, ps, idx)
				} else if w != o.V {
					j.add("push", props, "push/update-with-another-value", "target %s: %s sent %s = %s, transaction %d says %s", t, ev.Task, ps, o.V.Pretty(), idx, w.Pretty())
				}
				continue
			}
			covered := false
			for _, d := range wantDel {
				if o.P.Under(d) {
					covered = true
				}
			}
			if !covered {
				j.add("push", props, "push/delete-not-in-request", "target %s: %s sent a delete of %s, which is neither named by transaction %d nor beneath a path it deletes", t, ev.Task, ps, idx)
			}
		}
		for ps := range wantUp {
			if !gotUp[ps] {
				j.add("push", props, "push/update-missing", "target %s: %s did not send the update of %s that transaction %d contains", t, ev.Task, ps, idx)
			}
		}
		for _, d := range wantDel {
			covered := false
			for _, o := range ev.Dev.Ops {
				if o.Del && d.Under(o.P) {
					covered = true
				}
			}
			if !covered {
				j.add("push", props, "push/delete-missing", "target %s: %s did not send the delete of %s that transaction %d contains", t, ev.Task, d, idx)
			}
		}
	}
}

// monitorMaster: C10 – terms, master changes, election ids and the re-synchronisation gate
func (e *Exec) monitorMaster(j *Judgement, events []*world.Event) {
	props := []string{"C10"}
	type ms struct {
		term   uint64
		master string
		seq    int64
	}
	byVersion := map[string]map[uint64]ms{}
	connTarget := map[string]string{} // connection id -> the target it leads to (environment truth)
	relCreated := map[string]int64{}  // CONTROLS relation id -> sequence number of the call that created it
	termConn := map[string]string{}   // target/election id -> the connection that carried a request in that term
	foreign := map[string]bool{}      // relations of another onos-config node
	for _, ev := range events {
		switch {
		case ev.Kind == "env.connect":
			connTarget[ev.Note] = ev.Target
		case ev.Kind == "env.foreign-relation":
			foreign[ev.Note] = true
		case ev.Kind == "topo.Create" && ev.OK:
			if _, ok := relCreated[ev.Note]; !ok {
				relCreated[ev.Note] = ev.StartSeq // taken before the call: the relation cannot have been visible earlier
			}
		case strings.HasPrefix(ev.Kind, "cfg.") && ev.OK && ev.Cfg != nil:
			if byVersion[ev.Target] == nil {
				byVersion[ev.Target] = map[uint64]ms{}
			}
			byVersion[ev.Target][ev.Cfg.Version] = ms{uint64(ev.Cfg.Status.Mastership.Term), ev.Cfg.Status.Mastership.Master, ev.Seq}
		case ev.Kind == "dev.Set" && ev.Dev != nil && ev.Dev.Outcome != "offline":
			rc := ev.ReadCfg
			if rc == nil {
				j.add("master", props, "master/push-without-reading-configuration", "target %s: %s sent a request without having read the configuration", ev.Target, ev.Task)
				continue
			}
			e.C.Count("device_requests_checked", 1)
			if ev.Dev.Election != uint64(rc.Status.Mastership.Term) {
				j.add("master", props, "master/election-id", "target %s: %s sent election id %d but the configuration it read (version %d) is in term %d", ev.Target, ev.Task, ev.Dev.Election, rc.Version, rc.Status.Mastership.Term)
			}
			if ev.Dev.ConnID != rc.Status.Mastership.Master {
				j.add("master", props, "master/not-master-connection", "target %s: %s used connection %s but the master it read is %q", ev.Target, ev.Task, ev.Dev.ConnID, rc.Status.Mastership.Master)
			}
			if connTarget[ev.Dev.ConnID] != ev.Target {
				j.add("master", props, "master/request-over-a-connection-to-another-target", "target %s: %s sent a request over connection %s, which leads to %q", ev.Target, ev.Task, ev.Dev.ConnID, connTarget[ev.Dev.ConnID])
			}
			tk := fmt.Sprintf("%s/%d", ev.Target, ev.Dev.Election)
			if c, ok := termConn[tk]; ok && c != ev.Dev.ConnID {
				j.add("master", props, "master/two-connections-in-one-term", "target %s: requests with election id %d travelled over %s and over %s", ev.Target, ev.Dev.Election, c, ev.Dev.ConnID)
			}
			termConn[tk] = ev.Dev.ConnID
			if strings.HasPrefix(ev.Task, "proposal:") {
				if rc.Status.State == configapi.ConfigurationStatus_SYNCHRONIZING || rc.Status.Applied.Mastership.Term != rc.Status.Mastership.Term {
					j.add("master", []string{"C10", "C04"}, "master/push-before-resync", "target %s: %s sent a new change in term %d before the applied configuration was re-sent (state %s, applied term %d)", ev.Target, ev.Task, rc.Status.Mastership.Term, rc.Status.State, rc.Status.Applied.Mastership.Term)
				}
			}
			if ev.Dev.Outcome == "applied" && ev.Dev.Election < e.maxElectionBefore(events, ev) {
				j.add("master", props, "master/stale-election-accepted", "target %s: request with a stale election id was accepted", ev.Target)
			}
		}
	}
	// the re-sent configuration of a term is exactly the applied configuration the re-sync task read: nothing that was
	// never applied, and - when the task went on to declare the target SYNCHRONIZED - nothing missing
	type rs struct {
		tgt      string
		rc       *configapi.Configuration
		sent     map[string]bool
		allOK    bool
		declared bool
	}
	resyncs := map[int64]*rs{}
	for _, ev := range events {
		if !strings.HasPrefix(ev.Task, "configuration:") {
			continue
		}
		if ev.Kind == "dev.Set" && ev.ReadCfg != nil && ev.Dev != nil {
			g := resyncs[ev.TaskSer]
			if g == nil {
				g = &rs{tgt: ev.Target, rc: ev.ReadCfg, sent: map[string]bool{}, allOK: true}
				resyncs[ev.TaskSer] = g
			}
			if ev.Dev.Outcome != "applied" {
				g.allOK = false
			}
			for _, op := range ev.Dev.Ops {
				ps := op.P.String()
				g.sent[ps] = true
				pv := g.rc.Status.Applied.Values[ps]
				switch {
				case pv == nil:
					j.add("master", []string{"C10", "C04"}, "master/resync-sends-what-was-not-applied", "target %s: the re-sync in term %d sent %s, which is not among the applied values it read (applied index %d)", ev.Target, ev.Dev.Election, ps, g.rc.Status.Applied.Index)
				case pv.Deleted != op.Del || (!op.Del && ValOfAPI(&pv.Value) != op.V):
					j.add("master", []string{"C10", "C04"}, "master/resync-sends-another-value", "target %s: the re-sync in term %d sent %s (delete=%v, %s) but the applied value it read is (delete=%v, %s)", ev.Target, ev.Dev.Election, ps, op.Del, op.V.Pretty(), pv.Deleted, ValOfAPI(&pv.Value).Pretty())
				}
			}
		}
		if ev.Kind == "cfg.UpdateStatus" && ev.OK && ev.Cfg != nil && ev.Cfg.Status.State == configapi.ConfigurationStatus_SYNCHRONIZED {
			if g := resyncs[ev.TaskSer]; g != nil {
				g.declared = true
			}
		}
	}
	for _, g := range resyncs {
		e.C.Count("resyncs_compared_with_applied_values", 1)
		if !g.declared || !g.allOK {
			continue
		}
		for ps := range g.rc.Status.Applied.Values {
			if !g.sent[ps] {
				j.add("master", []string{"C10", "C04"}, "master/resync-incomplete", "target %s: the re-sync declared the target synchronized without having sent the applied value %s", g.tgt, ps)
			}
		}
	}
	// the target controller asks for a connection to every target entity of the topology (and never for a
	// disconnection while the entity exists); judged for the current incarnation, whose watchers replay the topology
	if inc := e.W.Cur(); inc.HasControllers() {
		for t := range e.W.Devices {
			cn, dn := inc.Conns.ConnectRequests(t)
			e.C.Count("target_connection_requests_checked", 1)
			if cn == 0 {
				j.add("master", props, "master/connection-never-requested", "target %s exists in the topology but the target controller never asked for a connection to it", t)
			}
			if dn > 0 {
				j.add("master", props, "master/disconnection-requested-for-existing-target", "target %s exists in the topology but the target controller asked %d times to disconnect from it", t, dn)
			}
		}
	}
	for t, vs := range byVersion {
		var versions []uint64
		for v := range vs {
			versions = append(versions, v)
		}
		sort.Slice(versions, func(a, b int) bool { return versions[a] < versions[b] })
		var last ms
		for i, v := range versions {
			x := vs[v]
			if i > 0 {
				if x.term < last.term {
					j.add("master", props, "master/term-decreased", "target %s: term went from %d to %d at version %d", t, last.term, x.term, v)
				}
				if x.master != "" && x.master != last.master && x.term != last.term+1 {
					j.add("master", props, "master/new-master-without-new-term", "target %s: master changed from %q to %q but the term went from %d to %d", t, last.master, x.master, last.term, x.term)
				}
				if x.master == last.master && x.term != last.term {
					j.add("master", props, "master/term-changed-without-election", "target %s: term changed from %d to %d with the same master %q", t, last.term, x.term, x.master)
				}
				if x.master != last.master {
					e.C.Count("mastership_changes", 1)
				}
			}
			if x.master != "" && (i == 0 || x.master != last.master) {
				// an election: the master must be a CONTROLS relation of this node to this target that existed when it was chosen
				e.C.Count("elections_checked", 1)
				switch {
				case foreign[x.master]:
					j.add("master", props, "master/elected-relation-of-another-node", "target %s: %q, a relation of another onos-config node, became master in term %d", t, x.master, x.term)
				case connTarget[x.master] == "":
					j.add("master", props, "master/elected-unknown-relation", "target %s: %q became master in term %d but no connection of that name was ever opened", t, x.master, x.term)
				case connTarget[x.master] != t:
					j.add("master", props, "master/elected-relation-of-another-target", "target %s: %q, a connection to %s, became master in term %d", t, x.master, connTarget[x.master], x.term)
				default:
					if c, ok := relCreated[x.master]; !ok || c > x.seq {
						j.add("master", props, "master/elected-before-relation-existed", "target %s: %q became master in term %d (write #%d) before its CONTROLS relation was created", t, x.master, x.term, x.seq)
					}
				}
			}
			last = x
		}
		if e.GoalReached && len(versions) > 0 {
			// at the final state the master is the live connection (every target is connected by then)
			if cur := e.W.Cur().Conns.Current(t); cur != "" && last.master != cur {
				j.add("master", props, "master/final-master-is-not-the-live-connection", "target %s: at the final state the master is %q, the live connection is %q", t, last.master, cur)
			}
		}
	}
}

func (e *Exec) maxElectionBefore(events []*world.Event, at *world.Event) uint64 {
	return 0 // the fake device enforces arbitration itself; kept as a hook
}

// StateString renders the content (not versions or timestamps) of all records
func StateString(s *TxState) string {
	var out []string
	for _, x := range s.Txs {
		f := ""
		if x.Status.Failure != nil {
			f = x.Status.Failure.Type.String()
		}
		out = append(out, fmt.Sprintf("T%d=%s/%s/%d", x.Index, x.Status.State, f, len(x.Status.Proposals)))
	}
	for _, x := range s.Props {
		out = append(out, fmt.Sprintf("P%s=%s", x.ID, PhaseString(x)))
	}
	for _, x := range s.Cfgs {
		out = append(out, fmt.Sprintf("C%s=%d/%d/%d/%d/%s/%d/%d/%s/%d/%d", x.ID, x.Index, x.Status.Proposed.Index, x.Status.Committed.Index, x.Status.Applied.Index,
			x.Status.State, x.Status.Mastership.Term, x.Status.Applied.Mastership.Term, x.Status.Mastership.Master, len(x.Values), len(x.Status.Applied.Values)))
	}
	sort.Strings(out)
	return strings.Join(out, ";")
}

// ReconcileEverything calls every reconciler on every existing object once, with fresh reconcilers
// on the undecorated stores (the "any object may be reconciled at any time" regime)
func (e *Exec) ReconcileEverything() {
	// the pass runs on the harness' own goroutine: no kill may be armed any more
	e.W.CrashBeforeEffect(0)
	e.W.CrashBeforeRPC(0)
	inc := e.W.Cur()
	ctx := context.Background()
	txR := txctl.NewReconcilerForVerif(inc.RawTxs, inc.RawPr)
	propR := propctl.NewReconcilerForVerif(e.W.Topo, inc.Conns, inc.RawPr, inc.RawCf, e.W.Registry)
	cfgR := cfgctl.NewReconcilerForVerif(e.W.Topo, inc.Conns, inc.RawCf)
	mstR := mstctl.NewReconcilerForVerif(e.W.Topo, inc.RawCf)
	txs, _ := inc.RawTxs.List(ctx)
	for _, x := range txs {
		_, _ = txR.Reconcile(controller.NewID(x.Index))
	}
	ps, _ := inc.RawPr.List(ctx)
	for _, x := range ps {
		_, _ = propR.Reconcile(controller.NewID(x.ID))
	}
	cs, _ := inc.RawCf.List(ctx)
	for _, x := range cs {
		_, _ = mstR.Reconcile(controller.NewID(x.ID))
		_, _ = cfgR.Reconcile(controller.NewID(x.ID))
	}
}

func (e *Exec) devReqs() int {
	n := 0
	for _, d := range e.W.Devices {
		n += len(d.LogCopy())
	}
	return n
}

// classifyStranded decides between a lost wake-up (re-examining the objects makes progress) and a deadlock
func (e *Exec) classifyStranded() string {
	before := StateString(e.Snapshot())
	for round := 0; round < 60; round++ {
		e.ReconcileEverything()
	}
	after := StateString(e.Snapshot())
	if after != before {
		if ok, _ := e.goal(e.Snapshot()); ok {
			return "lost-wakeup"
		}
		return "lost-wakeup-partial"
	}
	return "deadlock"
}

// retryPossiblyPending tells whether a controller task failed at a store write or a device request within the last
// window: its retry may still be sitting in the controller's back-off, i.e. the controllers may have pending work
// and the premise of the fixed-point clause does not hold
func (e *Exec) retryPossiblyPending(window time.Duration) bool {
	now := e.W.NowMs()
	evs := e.W.Events()
	for i := len(evs) - 1; i >= 0; i-- {
		ev := evs[i]
		if now-ev.AtMs > window.Milliseconds() {
			break
		}
		if ev.OK || strings.HasPrefix(ev.Task, "handler:") || strings.HasPrefix(ev.Task, "watcher:") || ev.Task == "" {
			continue
		}
		if strings.HasPrefix(ev.Kind, "prop.") || strings.HasPrefix(ev.Kind, "cfg.") || strings.HasPrefix(ev.Kind, "tx.") || ev.Kind == "dev.Set" || strings.HasPrefix(ev.Kind, "topo.") {
			return true
		}
	}
	return false
}

// FixedPoint checks C09's first clause on a settled execution: re-examining every object changes nothing
func (e *Exec) FixedPoint(j *Judgement) {
	if e.IdleFinding != "" {
		j.add("fixpoint", []string{"C09"}, "fixpoint/not-a-fixed-point-while-a-target-is-offline", "%s", e.IdleFinding)
	}
	if !e.GoalReached {
		return
	}
	// the goal predicate can hold between two writes of one reconcile step (e.g. a proposal recorded FAILED, its
	// configuration's applied index not yet advanced): let steps that are in flight finish first
	e.waitQuiet(400*time.Millisecond, 10*time.Second)
	pending := e.retryPossiblyPending(6 * time.Second)
	before := StateString(e.Snapshot())
	reqs := e.devReqs()
	e.ReconcileEverything()
	after := StateString(e.Snapshot())
	e.C.Count("fixed_point_passes", 1)
	if (before != after || e.devReqs() != reqs) && pending {
		// a failed attempt of a controller is recent enough for its retry to be still waiting: not judged
		e.C.Count("fixed_point_passes_not_judged_retry_possibly_pending", 1)
		return
	}
	if before != after || e.devReqs() != reqs {
		j.add("fixpoint", []string{"C09"}, "fixpoint/not-a-fixed-point", "the controllers were idle but re-examining the objects changed the state:\n before %s\n after  %s", before, after)
	}
}

// monitorWatchers: C15 in vivo – every controller watcher of the live incarnation must have been shown the
// latest version of every record (the stores' own contract). A miss is what turns into a lost wake-up.
func (e *Exec) monitorWatchers(j *Judgement, events []*world.Event) (missed, missedOwnFanout int) {
	cur := e.W.Cur().N
	type rec struct{ store, id string }
	final := map[rec]uint64{}
	for _, ev := range events {
		if !ev.OK {
			continue
		}
		switch {
		case ev.Prop != nil && strings.HasPrefix(ev.Kind, "prop."):
			r := rec{"prop", string(ev.Prop.ID)}
			if ev.Prop.Version > final[r] {
				final[r] = ev.Prop.Version
			}
		case ev.Tx != nil && strings.HasPrefix(ev.Kind, "tx."):
			r := rec{"tx", fmt.Sprintf("tx%d", ev.Tx.Index)}
			if ev.Tx.Version > final[r] {
				final[r] = ev.Tx.Version
			}
		case ev.Cfg != nil && strings.HasPrefix(ev.Kind, "cfg."):
			r := rec{"cfg", string(ev.Cfg.ID)}
			if ev.Cfg.Version > final[r] {
				final[r] = ev.Cfg.Version
			}
		}
	}
	seen := map[string]map[rec]uint64{} // watcher -> record -> highest version delivered
	if e.W.Cur().HasControllers() {
		// the subscriptions NewController sets up (a watcher that was never shown anything must be noticed too)
		for _, w := range []string{"watcher:proposal/prop", "watcher:transaction/prop", "watcher:transaction/tx",
			"watcher:mastership/cfg", "watcher:configuration/cfg", "watcher:proposal/cfg"} {
			seen[w] = map[rec]uint64{}
		}
	}
	for _, ev := range events {
		if !strings.HasPrefix(ev.Kind, "watch.") || ev.Inc != cur || strings.HasPrefix(ev.Task, "watcher:handler") {
			continue
		}
		f := strings.Fields(ev.Note)
		if len(f) < 3 {
			continue
		}
		v, _ := strconv.ParseUint(strings.TrimPrefix(f[2], "v"), 10, 64)
		r := rec{strings.TrimPrefix(ev.Kind, "watch."), f[1]}
		w := ev.Task + "/" + r.store
		if seen[w] == nil {
			seen[w] = map[rec]uint64{}
		}
		if v > seen[w][r] {
			seen[w][r] = v
		}
	}
	for w, m := range seen {
		store := w[strings.LastIndex(w, "/")+1:]
		for r, fv := range final {
			if r.store != store {
				continue
			}
			e.C.Count("watcher_final_versions_checked", 1)
			if m[r] < fv {
				missed++
				if store != "prop" {
					// the transaction and configuration stores fan one Atomix stream out themselves: a miss there
					// is the store's own doing, not the Atomix client's subscription race (KF-C15-1)
					missedOwnFanout++
				}
				j.add("watchers", []string{"C15"}, "watchers/missed-latest-version/"+store, "%s was never shown version %d of %s %s (last shown: %d)", strings.TrimSuffix(w, "/"+store), fv, r.store, r.id, m[r])
			}
		}
	}
	return missed, missedOwnFanout
}
