// Package engine holds the execution engines: S2 (real controllers free-running on the simulated
// world, driven by PRNG-generated histories) and the oracles that judge its executions.
package engine

import (
	"fmt"
	"strings"

	"google.golang.org/grpc/codes"

	"verif/fw"
	"verif/refmodel"
)

// Step is one step of a scenario
type Step struct {
	Kind         string // set rollback connect disconnect restart-empty replace-conn dev-fault crash settle
	Ops          []refmodel.Op
	Sync         bool
	Serializable bool   // the Set asks for SERIALIZABLE isolation (its successors wait for each of its phases as a whole)
	NoWait       bool   // do not wait for the reply before the next step
	RbMode       string // latest | latest-change | random | nonexistent | index
	RbArg        int
	Target       string
	Codes        []codes.Code
	CrashK       int  // crash before the k-th effect counted from this step on
	CrashRPC     bool // ... counted in individual Atomix write RPCs instead of decorated calls
}

func (s Step) String() string {
	switch s.Kind {
	case "set":
		var ops []string
		for _, o := range s.Ops {
			ops = append(ops, o.String())
		}
		m := "async"
		if s.Sync {
			m = "sync"
		}
		if s.NoWait {
			m += ",nowait"
		}
		if s.Serializable {
			m += ",serializable"
		}
		return fmt.Sprintf("set(%s)[%s]", m, strings.Join(ops, " "))
	case "rollback":
		return fmt.Sprintf("rollback(%s,%d)", s.RbMode, s.RbArg)
	case "dev-fault":
		return fmt.Sprintf("dev-fault(%s,%v)", s.Target, s.Codes)
	case "crash":
		if s.CrashRPC {
			return fmt.Sprintf("crash(before Atomix write +%d)", s.CrashK)
		}
		return fmt.Sprintf("crash(before effect +%d)", s.CrashK)
	}
	return s.Kind + "(" + s.Target + ")"
}

// Profile steers the scenario generator
type Profile struct {
	Targets        []string
	MinOps, MaxOps int
	PMulti         int  // % of Sets spanning two or more targets
	PPoison        int  // % of Sets carrying a value the model plugin rejects
	PEq            int  // % of Sets using EQ values on /a/b, /a/c (cross-leaf constraint)
	PDevReject     int  // % of Sets carrying a value the device rejects
	PDelete        int  // % of operations that are deletes
	PRollback      int  // % of steps that are rollbacks
	PEnv           int  // % chance of an environment action after a step
	PNoWait        int  // % of Sets issued without waiting for the reply
	PSync          int  // % of Sets that are synchronous
	PStartOffline  int  // % chance that a target is offline at the start
	PDevFault      int  // % chance of a transient device fault burst after a step
	PPreempt       int  // per-mille probability that a controller task is held at a decorated call until others have written (at most 5 holds per history)
	PStaleWriter   int  // % of the status writes of the mastership / configuration controllers that are held for 5..40 ms between the controller's read and its write
	PSerializable  int  // % of Sets that ask for SERIALIZABLE isolation through the transaction-strategy extension
	PForeign       int  // % of environment actions that add / remove a CONTROLS relation of another onos-config node
	PCrash         int  // % chance that the scenario contains one crash
	PSlowPlugin    int  // % of model-plugin validations that stall for 5..40 ms (one target's validation much slower than another's)
	PStoreFault    int  // per-mille probability that a controller's store call fails with a transient error
	PCreateFault   int  // per-cent probability that a controller's proposal Create fails with a transient error (cuts a transaction's initialisation pass short between two targets)
	IdleCheck      bool // evaluate the fixed-point clause before the final connects (see Exec.IdleCheck)
	AllowClash     bool
	RejectCode     codes.Code // gRPC code the device answers a refused value with (default InvalidArgument)
	Paths          string     // "basic" (few paths, many overwrites) | "rich"
}

// leaf and delete path pools
var richLeaves = []string{"/foo", "/bar", "/fo", "/a/b", "/a/c", "/a/bc", "/a/d/e", "/a/d/ee", "/ab/x", "/cont/leaf2", "/cont/leaf2a", "/cont-x/leaf",
	"/c/l[k=x]/v", "/c/l[k=xy]/v", "/c/l[k=x]/n", "/c/l[k=x]/sub/x", "/c/l[k=x]/in[id=1]/w", "/c/l[k=x]/in[id=10]/w", "/c/lx[k=x]/v",
	"/c/m[k1=1][k2=2]/v", "/c/m[k1=1][k2=3]/v", "/c/m[k1=10][k2=2]/v", "/c/l[k=x]/k"}
var richDeletes = []string{"/foo", "/fo", "/a", "/a/b", "/a/d", "/ab", "/cont", "/cont/leaf2", "/c/l[k=x]", "/c/l", "/c/m", "/c", "/c/m[k1=1][k2=2]", "/c/l[k=x]/v",
	"/c/l[k=x]/in[id=1]", "/c/l[k=x]/sub", "/c/l[k=x]/k", "/c/m[k1=1][k2=2]/k1"}
var basicLeaves = []string{"/foo", "/bar", "/goo", "/a/b", "/a/c"}
var basicDeletes = []string{"/foo", "/a", "/a/b"}

// GenOps generates the operations of one Set
func GenOps(r *fw.Rng, p *Profile, s *refmodel.Schema, seq int) []refmodel.Op {
	nT := 1
	if len(p.Targets) > 1 && r.Chance(p.PMulti, 100) {
		nT = 2 + r.Intn(len(p.Targets)-1)
	}
	perm := r.Perm(len(p.Targets))
	leaves, dels := richLeaves, richDeletes
	if p.Paths == "basic" {
		leaves, dels = basicLeaves, basicDeletes
	}
	poison := r.Chance(p.PPoison, 100)
	devrej := !poison && r.Chance(p.PDevReject, 100)
	eq := r.Chance(p.PEq, 100)
	var ops []refmodel.Op
	special := false
	for ti := 0; ti < nT; ti++ {
		tg := p.Targets[perm[ti]]
		k := 1 + r.Intn(3)
		for j := 0; j < k; j++ {
			var op refmodel.Op
			if r.Chance(p.PDelete, 100) {
				op = refmodel.Op{Target: tg, Del: true, P: refmodel.MustParse(dels[r.Intn(len(dels))])}
			} else {
				ps := leaves[r.Intn(len(leaves))]
				pp := refmodel.MustParse(ps)
				n := s.NodeOf(pp)
				var v refmodel.Val
				switch {
				case n != nil && n.IsKeyLeaf():
					v = refmodel.S(pp[len(pp)-2].Keys[0].V)
					for _, kv := range pp[len(pp)-2].Keys {
						if kv.K == n.Name {
							v = refmodel.S(kv.V)
						}
					}
					if n.Type == "uint" {
						v = refmodel.Val("u:" + string(v)[2:])
					}
				case n != nil && n.Type == "uint":
					v = refmodel.U(uint64(seq*10 + j))
				default:
					v = refmodel.S(fmt.Sprintf("v%d_%d", seq, j))
					if eq && (ps == "/a/b" || ps == "/a/c") {
						v = refmodel.S("EQ1")
					}
					if poison && !special {
						v = refmodel.S("POISON")
						special = true
					} else if devrej && !special {
						v = refmodel.S("DEVREJECT")
						special = true
					}
				}
				op = refmodel.Op{Target: tg, P: pp, V: v}
			}
			if !p.AllowClash {
				clash := false
				for _, o := range ops {
					if o.Target == tg && (o.P.Under(op.P) || op.P.Under(o.P) || relatedKeyLeaf(s, o.P, op.P)) {
						clash = true
					}
				}
				if clash {
					continue
				}
			}
			ops = append(ops, op)
		}
	}
	if len(ops) == 0 {
		ops = append(ops, refmodel.Op{Target: p.Targets[perm[0]], P: refmodel.MustParse("/foo"), V: refmodel.S(fmt.Sprintf("v%d", seq))})
	}
	return ops
}

// relatedKeyLeaf: a key-leaf delete addresses its entry, so it clashes with anything in that entry
func relatedKeyLeaf(s *refmodel.Schema, a, b refmodel.Path) bool {
	for _, pr := range [][2]refmodel.Path{{a, b}, {b, a}} {
		if n := s.NodeOf(pr[0]); n != nil && n.IsKeyLeaf() && (pr[1].Under(pr[0].Parent()) || pr[0].Parent().Under(pr[1])) {
			return true
		}
	}
	return false
}

var transientCodes = []codes.Code{codes.Unavailable, codes.Canceled, codes.DeadlineExceeded}

// GenScenario generates a scenario
func GenScenario(r *fw.Rng, p *Profile, s *refmodel.Schema) []Step {
	var steps []Step
	for _, t := range p.Targets {
		if !r.Chance(p.PStartOffline, 100) {
			steps = append(steps, Step{Kind: "connect", Target: t})
		}
	}
	n := p.MinOps + r.Intn(p.MaxOps-p.MinOps+1)
	crashAt := -1
	if r.Chance(p.PCrash, 100) {
		crashAt = r.Intn(n)
	}
	sets := 0
	for i := 0; i < n; i++ {
		if i == crashAt {
			if r.Chance(1, 2) {
				steps = append(steps, Step{Kind: "crash", CrashK: 1 + r.Intn(25)})
			} else {
				steps = append(steps, Step{Kind: "crash", CrashK: 1 + r.Intn(60), CrashRPC: true})
			}
		}
		if sets > 0 && r.Chance(p.PRollback, 100) {
			mode := "latest"
			switch r.Intn(8) {
			case 0:
				mode = "random"
			case 1:
				mode = "nonexistent"
			case 2, 3, 4:
				mode = "latest-change"
			}
			steps = append(steps, Step{Kind: "rollback", RbMode: mode, RbArg: r.Intn(1000), NoWait: r.Chance(p.PNoWait, 100)})
		} else {
			sets++
			st := Step{Kind: "set", Ops: GenOps(r, p, s, i+1), Sync: r.Chance(p.PSync, 100), NoWait: r.Chance(p.PNoWait, 100)}
			if p.PSerializable > 0 {
				st.Serializable = r.Chance(p.PSerializable, 100)
			}
			steps = append(steps, st)
		}
		if r.Chance(p.PDevFault, 100) {
			t := p.Targets[r.Intn(len(p.Targets))]
			var cs []codes.Code
			for k := 1 + r.Intn(3); k > 0; k-- {
				cs = append(cs, transientCodes[r.Intn(len(transientCodes))])
			}
			steps = append(steps, Step{Kind: "dev-fault", Target: t, Codes: cs})
		}
		if r.Chance(p.PEnv, 100) {
			t := p.Targets[r.Intn(len(p.Targets))]
			kind := []string{"connect", "disconnect", "restart-empty", "replace-conn"}[r.Intn(4)]
			if p.PForeign > 0 && r.Chance(p.PForeign, 100) {
				kind = "foreign-relation"
			}
			steps = append(steps, Step{Kind: kind, Target: t})
		}
	}
	return steps
}
