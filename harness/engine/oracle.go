package engine

import (
	"context"
	"fmt"
	"sort"
	"strings"
	"time"

	configapi "github.com/onosproject/onos-api/go/onos/config/v2"
	"github.com/openconfig/gnmi/proto/gnmi"

	"verif/refmodel"
	"verif/world"
)

// Finding is an oracle verdict with the properties it concerns
type Finding struct {
	Oracle string
	Props  []string
	Key    string
	Msg    string
}

// Judgement is the outcome of judging one execution
type Judgement struct {
	Findings []Finding
	Model    *refmodel.Model
	Outs     map[uint64]*refmodel.TxOut
	CallOf   map[uint64]*Call
	State    *TxState
}

func (j *Judgement) add(oracle string, props []string, key, format string, args ...interface{}) {
	j.Findings = append(j.Findings, Finding{Oracle: oracle, Props: props, Key: key, Msg: fmt.Sprintf(format, args...)})
}

// GetTree reads a target's whole stored configuration through the real gNMI Get (PROTO)
func GetTree(inc *world.Incarnation, target string) (refmodel.Tree, error) {
	resp, err := inc.Server.Get(context.Background(), &gnmi.GetRequest{Path: []*gnmi.Path{{Target: target}}, Encoding: gnmi.Encoding_PROTO})
	if err != nil {
		if ErrClass(err) == "NotFound" {
			return refmodel.Tree{}, nil // never configured
		}
		return nil, err
	}
	t := refmodel.Tree{}
	for _, n := range resp.Notification {
		for _, u := range n.Update {
			if u.Val == nil {
				continue
			}
			t.Set(refmodel.FromGNMI(u.Path), refmodel.ValOfGNMI(u.Val))
		}
	}
	return t, nil
}

var failureCode = map[string]string{
	"INVALID": "InvalidArgument", "FORBIDDEN": "PermissionDenied", "NOT_FOUND": "NotFound", "UNKNOWN": "Unknown", "CANCELED": "Canceled",
	"ALREADY_EXISTS": "AlreadyExists", "UNAUTHORIZED": "Unauthenticated", "CONFLICT": "FailedPrecondition", "UNAVAILABLE": "Unavailable",
	"NOT_SUPPORTED": "Unimplemented", "TIMEOUT": "DeadlineExceeded", "INTERNAL": "Internal",
}

func failureName(f *configapi.Failure) string {
	if f == nil {
		return "<nil>"
	}
	return f.Type.String()
}

func contains(xs []string, x string) bool {
	for _, y := range xs {
		if x == y {
			return true
		}
	}
	return false
}

// Judge evaluates all end-state and trace oracles on a settled execution
func (e *Exec) Judge() *Judgement {
	j := &Judgement{Outs: map[uint64]*refmodel.TxOut{}, CallOf: map[uint64]*Call{}}
	inc := e.W.Cur()
	events := e.W.Events()
	// 1. which call created which transaction
	byTask := map[string]*Call{}
	for _, c := range e.Calls {
		byTask[c.Name()] = c
	}
	for _, ev := range events {
		if ev.Kind == "tx.Create" && ev.OK {
			if c := byTask[ev.Task]; c != nil {
				c.TxIndex = uint64(ev.Tx.Index)
				c.TxID = string(ev.Tx.ID)
				j.CallOf[c.TxIndex] = c
			}
		}
	}
	st := e.Snapshot()
	j.State = st
	sort.Slice(st.Txs, func(a, b int) bool { return st.Txs[a].Index < st.Txs[b].Index })
	var targets []string
	for t := range e.W.Devices {
		targets = append(targets, t)
	}
	sort.Strings(targets)
	m := refmodel.NewModel(e.W.Schema, targets)
	if e.RejectClass != "" {
		m.RejectClass = e.RejectClass
	}
	j.Model = m
	multi := map[uint64]bool{}
	// 2. feed the model in log order
	for i, tx := range st.Txs {
		if uint64(tx.Index) != uint64(i+1) {
			j.add("log", []string{"C15", "C07"}, "log/index-gap", "transaction log indexes are not 1..n: position %d holds index %d", i+1, tx.Index)
		}
		c := j.CallOf[uint64(tx.Index)]
		if c == nil {
			e.C.Inconclusive(fmt.Sprintf("transaction %d has no originating call in the event log", tx.Index))
			return j
		}
		in := refmodel.TxIn{Index: uint64(tx.Index)}
		if c.Kind == "rollback" {
			in.Rollback = true
			in.RollbackIndex = c.RbIndex
		} else {
			in.Ops = c.Ops
		}
		out := m.Apply(in)
		j.Outs[in.Index] = out
		multi[in.Index] = len(out.Targets) > 1
	}
	mt := func(idx uint64, base ...string) []string {
		if multi[idx] {
			return append(base, "C01")
		}
		return base
	}
	// 3. transaction end states
	if e.GoalReached {
		for _, tx := range st.Txs {
			out := j.Outs[uint64(tx.Index)]
			c := j.CallOf[uint64(tx.Index)]
			props := mt(out.Index, "C07")
			if c.Kind == "rollback" {
				props = append(props, "C06")
			}
			if len(out.ApplyFail) > 0 {
				props = append(props, "C11")
			} else if !out.Committed {
				props = append(props, "C05")
			}
			want := configapi.TransactionStatus_APPLIED
			if !out.Committed || !out.Applied {
				want = configapi.TransactionStatus_FAILED
			}
			if tx.Status.State != want {
				if tx.Status.State == configapi.TransactionStatus_FAILED {
					props = append(props, "C11")
				}
				j.add("txstate", props, "txstate/"+strings.ToLower(want.String())+"-expected/"+strings.ToLower(tx.Status.State.String())+"/"+strings.ToLower(failureName(tx.Status.Failure)),
					"transaction %d (%s) ended %s (failure %v), the sequential model says %s (%s)", tx.Index, c.Name(), tx.Status.State, tx.Status.Failure, want, out.Reason)
			} else if want == configapi.TransactionStatus_FAILED && !contains(out.Failure, failureName(tx.Status.Failure)) {
				j.add("txstate", props, "txstate/failure-class/"+strings.ToLower(failureName(tx.Status.Failure))+"-for-"+strings.ToLower(out.Failure[0]),
					"transaction %d failed with class %s, expected one of %v (%s)", tx.Index, failureName(tx.Status.Failure), out.Failure, out.Reason)
			}
		}
	}
	// 4. answers
	for _, c := range e.Calls {
		if c.Open {
			continue
		}
		out := j.Outs[c.TxIndex]
		if !c.HasReturned() {
			if c.TxIndex != 0 && e.GoalReached {
				j.add("answer", []string{"C08"}, "answer/unanswered", "%s (transaction %d) was never answered although its transaction is %s", c.Name(), c.TxIndex, stateOf(st, c.TxIndex))
			}
			continue
		}
		if c.TxIndex == 0 {
			if c.Err == nil {
				j.add("answer", []string{"C08", "C13"}, "answer/ok-without-transaction", "%s answered OK but logged no transaction", c.Name())
			} else {
				j.add("answer", []string{"C13", "C08"}, "answer/valid-request-refused/"+ErrClass(c.Err), "%s is a valid request but was refused before logging: %v", c.Name(), c.Err)
			}
			continue
		}
		props := mt(c.TxIndex, "C08")
		if c.Kind == "rollback" {
			props = append(props, "C06")
		}
		if !out.Committed {
			props = append(props, "C05")
		}
		if len(out.ApplyFail) > 0 {
			props = append(props, "C11")
		}
		// an OK answer must not precede the stage the caller asked to wait for
		if c.Err == nil {
			awaited := configapi.TransactionStatus_COMMITTED
			if c.Sync {
				awaited = configapi.TransactionStatus_APPLIED
			}
			var reachedAt int64
			// the decorator logs a write after the store call returned: the handler may have been woken by the
			// store event and have returned before that; give the log entry up to 2 s to appear
			for try := 0; reachedAt == 0 && try < 200; try++ {
				evs := events
				if try > 0 {
					time.Sleep(10 * time.Millisecond)
					evs = e.W.Events()
				}
				for _, ev := range evs {
					if ev.Tx != nil && ev.OK && uint64(ev.Tx.Index) == c.TxIndex && strings.HasPrefix(ev.Kind, "tx.") &&
						(ev.Tx.Status.State == awaited || (!c.Sync && ev.Tx.Status.State == configapi.TransactionStatus_APPLIED)) {
						reachedAt = ev.StartSeq
						break
					}
				}
			}
			e.C.Count("ok_answers_ordered_against_stage", 1)
			if reachedAt == 0 || reachedAt > c.ReturnAt {
				j.add("answer", []string{"C08"}, "answer/ok-before-awaited-stage", "%s (transaction %d) was answered OK (event #%d) before the transaction reached %s (event #%d)", c.Name(), c.TxIndex, c.ReturnAt, awaited, reachedAt)
			}
			// identifier and index extension
			if c.Kind == "set" {
				okExt := false
				for _, x := range c.Resp.GetExtension() {
					if r := x.GetRegisteredExt(); r != nil && r.Id == configapi.TransactionInfoExtensionID {
						ti := &configapi.TransactionInfo{}
						if ti.Unmarshal(r.Msg) == nil && string(ti.ID) == c.TxID && uint64(ti.Index) == c.TxIndex {
							okExt = true
						}
					}
				}
				if !okExt {
					j.add("answer", []string{"C08"}, "answer/transaction-info-extension", "%s: the response does not carry the id / index (%s / %d) under which the change is stored", c.Name(), c.TxID, c.TxIndex)
				}
			} else if c.RbResp == nil || string(c.RbResp.ID) != c.TxID || uint64(c.RbResp.Index) != c.TxIndex {
				j.add("answer", []string{"C08"}, "answer/rollback-response", "%s: the response does not carry the id / index of the rollback transaction", c.Name())
			}
		}
		wantOK := out.Committed && (out.Applied || !c.Sync)
		// an asynchronous request whose transaction was committed but whose apply the device refused may
		// truthfully be answered either way: OK (it reached the stage asked for) or the recorded failure
		eitherWay := out.Committed && !out.Applied && !c.Sync
		if wantOK != (c.Err == nil) && !eitherWay {
			j.add("answer", props, fmt.Sprintf("answer/verdict/ok=%v-want-ok=%v/%s", c.Err == nil, wantOK, ErrClass(c.Err)),
				"%s (transaction %d) was answered %v; the model says ok=%v (%s)", c.Name(), c.TxIndex, errOrOK(c.Err), wantOK, out.Reason)
		} else if c.Err != nil {
			var codes []string
			for _, f := range out.Failure {
				codes = append(codes, failureCode[f])
			}
			if !contains(codes, ErrClass(c.Err)) {
				j.add("answer", props, "answer/error-class/"+ErrClass(c.Err)+"-want-"+codes[0], "%s failed with %s, expected one of %v (%s)", c.Name(), ErrClass(c.Err), codes, out.Reason)
			}
		} else if c.Kind == "set" {
			// response content: exactly the changed (target, path, op) set, and the id/index extension
			want := map[string]bool{}
			for _, o := range c.Ops {
				p := o.P
				if n := e.W.Schema.NodeOf(p); o.Del && n != nil && n.IsKeyLeaf() {
					p = p.Parent()
				}
				want[fmt.Sprintf("%s %s del=%v", o.Target, p, o.Del)] = true
			}
			got := map[string]bool{}
			for _, r := range c.Resp.GetResponse() {
				got[fmt.Sprintf("%s %s del=%v", r.Path.GetTarget(), refmodel.FromGNMI(r.Path), r.Op == gnmi.UpdateResult_DELETE)] = true
			}
			if fmt.Sprint(keys(want)) != fmt.Sprint(keys(got)) {
				j.add("answer", []string{"C08", "C16"}, "answer/response-content", "%s response lists %v, the request changed %v", c.Name(), keys(got), keys(want))
			}
		}
	}
	// 5. stored configuration == sequential effect (only meaningful when nothing is in flight)
	if e.GoalReached {
		for _, t := range targets {
			got, err := GetTree(inc, t)
			if err != nil {
				j.add("config", []string{"C03", "C12"}, "config/get-error", "Get on %s failed: %v", t, err)
				continue
			}
			if d := got.Diff(m.Cfg[t]); len(d) > 0 {
				cls := classifyDiff(d)
				props := []string{"C03", "C05", "C07"}
				if e.hasKind("rollback") {
					props = append(props, "C06")
				}
				if len(multi) > 0 {
					for _, is := range multi {
						if is {
							props = append(props, "C01")
							break
						}
					}
				}
				j.add("config", props, "config/"+cls, "stored configuration of %s differs from the sequential effect of the committed transactions: %v", t, d)
			}
		}
	}
	// 6. device == applied configuration
	if e.GoalReached {
		for _, t := range targets {
			// Paths touched by a change the device refused are undetermined on the device from then on (the
			// stored configuration moved on without it): they are left out of the comparison.
			var tainted []refmodel.Path
			for _, o := range j.Outs {
				if contains(o.ApplyFail, t) {
					for _, op := range o.Push[t] {
						tp := op.P
						if n := e.W.Schema.NodeOf(tp); op.Del && !op.Literal && n != nil && n.IsKeyLeaf() {
							tp = tp.Parent()
						}
						tainted = append(tainted, tp)
					}
				}
			}
			strip := func(tr refmodel.Tree) refmodel.Tree {
				if len(tainted) == 0 {
					return tr
				}
				out := refmodel.Tree{}
				for k, le := range tr {
					skip := false
					for _, tp := range tainted {
						if le.P.Under(tp) {
							skip = true
						}
					}
					if !skip {
						out[k] = le
					}
				}
				return out
			}
			got := strip(e.W.Devices[t].Snapshot())
			e.C.Count("device_leaves_compared", int64(len(got)))
			if d := got.Diff(strip(m.Dev[t])); len(d) > 0 {
				props := []string{"C04", "C07"}
				if e.hasKind("rollback") {
					props = append(props, "C06")
				}
				for _, o := range j.Outs {
					if len(o.ApplyFail) > 0 {
						props = append(props, "C11")
						break
					}
				}
				j.add("device", props, "device/"+classifyDiff(d), "device %s differs from the applied configuration: %v", t, d)
			}
		}
	}
	// 7. stranded
	// deliveries of the last writes may still be in flight: give them up to 2 s before calling one missed
	var missed, missedOwn int
	for try := 0; ; try++ {
		probe := &Judgement{}
		missed, missedOwn = e.monitorWatchers(probe, e.W.Events())
		if missed == 0 || try >= 200 {
			j.Findings = append(j.Findings, probe.Findings...)
			break
		}
		time.Sleep(10 * time.Millisecond)
	}
	if e.Stranded != "" {
		kind := e.classifyStranded()
		if missed > 0 && missedOwn == 0 {
			// every miss is a proposal-store watcher's: the Atomix client's subscription race (KF-C15-1)
			kind = "after-missed-store-event"
		}
		j.add("stranded", []string{"C09", "C07", "C04", "C11", "C08"}, "stranded/"+kind, "the system became stable without reaching a final state: %s (%s)", e.Stranded, kind)
	}
	// 8. trace monitors
	e.monitorOrder(j, events)
	e.monitorAtomic(j, events)
	e.monitorValidated(j, events)
	e.monitorMaster(j, events)
	e.monitorPush(j, events)
	return j
}

func errOrOK(err error) string {
	if err == nil {
		return "OK"
	}
	return err.Error()
}

func keys(m map[string]bool) []string {
	var out []string
	for k := range m {
		out = append(out, k)
	}
	sort.Strings(out)
	return out
}

func stateOf(st *TxState, idx uint64) string {
	for _, t := range st.Txs {
		if uint64(t.Index) == idx {
			return t.Status.State.String()
		}
	}
	return "?"
}

func (e *Exec) hasKind(kind string) bool {
	for _, c := range e.Calls {
		if c.Kind == kind {
			return true
		}
	}
	return false
}

func classifyDiff(d []string) string {
	kinds := map[string]bool{}
	for _, x := range d {
		kinds[strings.SplitN(x, " ", 2)[0]] = true
	}
	var ks []string
	for k := range kinds {
		ks = append(ks, k)
	}
	sort.Strings(ks)
	return strings.Join(ks, "+")
}
