package world

import (
	"context"
	"fmt"
	"sync"

	topoapi "github.com/onosproject/onos-api/go/onos/topo"
	sb "github.com/onosproject/onos-config/pkg/southbound/gnmi"
	"github.com/onosproject/onos-lib-go/pkg/errors"
	baseClient "github.com/openconfig/gnmi/client"
	"github.com/openconfig/gnmi/proto/gnmi"
	"google.golang.org/grpc/codes"
	"google.golang.org/grpc/status"

	"verif/refmodel"
)

// DevReq is one entry of a device's request log
type DevReq struct {
	Seq      int64
	ConnID   string
	Election uint64
	Ops      []refmodel.Op
	Task     string
	Outcome  string // applied | denied(stale-election) | rejected(<code>) | fault(<code>) | offline
	Raw      *gnmi.SetRequest
}

func (r *DevReq) String() string {
	s := fmt.Sprintf("#%d conn=%s eid=%d task=%s", r.Seq, r.ConnID, r.Election, r.Task)
	for _, o := range r.Ops {
		if o.Del {
			s += " -" + o.P.String()
		} else {
			s += " +" + o.P.String() + "=" + o.V.Pretty()
		}
	}
	return s + " => " + r.Outcome
}

// Device is a fake gNMI target: a tree of leaves with gNMI Set semantics and master arbitration
type Device struct {
	Target      string
	mu          sync.Mutex
	Tree        refmodel.Tree
	MaxElection uint64
	Log         []*DevReq
	// faults
	failCodes  []codes.Code // the next requests fail with these codes (consumed one by one)
	rejectCode codes.Code   // code used for DEVREJECT values (default InvalidArgument)
	Restarts   int
	w          *World
}

// FailNext makes the next requests fail with the given gRPC codes, one per request
func (d *Device) FailNext(cs ...codes.Code) {
	d.mu.Lock()
	d.failCodes = append(d.failCodes, cs...)
	d.mu.Unlock()
}

// SetRejectCode sets the gRPC code the device answers a refused value with
func (d *Device) SetRejectCode(c codes.Code) {
	d.mu.Lock()
	d.rejectCode = c
	d.mu.Unlock()
}

// PendingFaults tells how many injected failures have not been consumed yet
func (d *Device) PendingFaults() int {
	d.mu.Lock()
	defer d.mu.Unlock()
	return len(d.failCodes)
}

// RestartEmpty drops the device's configuration and arbitration state
func (d *Device) RestartEmpty() {
	d.mu.Lock()
	d.Tree = refmodel.Tree{}
	d.MaxElection = 0
	d.Restarts++
	d.Log = append(d.Log, &DevReq{Outcome: "--- device restarted empty"})
	d.mu.Unlock()
}

// Snapshot returns a copy of the device tree
func (d *Device) Snapshot() refmodel.Tree {
	d.mu.Lock()
	defer d.mu.Unlock()
	return d.Tree.Clone()
}

// LogCopy returns a copy of the request log
func (d *Device) LogCopy() []*DevReq {
	d.mu.Lock()
	defer d.mu.Unlock()
	return append([]*DevReq(nil), d.Log...)
}

func opsOf(target string, r *gnmi.SetRequest) []refmodel.Op {
	var ops []refmodel.Op
	for _, p := range r.Delete {
		ops = append(ops, refmodel.Op{Target: target, Del: true, P: refmodel.FromGNMI(r.Prefix, p)})
	}
	for _, u := range r.Replace {
		ops = append(ops, refmodel.Op{Target: target, P: refmodel.FromGNMI(r.Prefix, u.Path), V: refmodel.ValOfGNMI(u.Val)})
	}
	for _, u := range r.Update {
		ops = append(ops, refmodel.Op{Target: target, P: refmodel.FromGNMI(r.Prefix, u.Path), V: refmodel.ValOfGNMI(u.Val)})
	}
	return ops
}

func (d *Device) handle(connID string, r *gnmi.SetRequest) (*DevReq, error) {
	var election uint64
	for _, e := range r.Extension {
		if ma := e.GetMasterArbitration(); ma != nil {
			election = ma.GetElectionId().GetLow()
		}
	}
	req := &DevReq{ConnID: connID, Election: election, Ops: opsOf(d.Target, r), Task: CurrentTask(), Raw: r}
	d.mu.Lock()
	defer d.mu.Unlock()
	req.Seq = d.w.nextSeq()
	d.Log = append(d.Log, req)
	if len(d.failCodes) > 0 {
		c := d.failCodes[0]
		d.failCodes = d.failCodes[1:]
		req.Outcome = "fault(" + c.String() + ")"
		d.w.InjectedFault()
		return req, status.Error(c, "injected device fault")
	}
	if election < d.MaxElection {
		req.Outcome = "denied(stale-election)"
		return req, status.Error(codes.PermissionDenied, "election id is lower than the current master's")
	}
	d.MaxElection = election
	if refmodel.DeviceRejects(req.Ops) {
		c := d.rejectCode
		if c == codes.OK {
			c = codes.InvalidArgument
		}
		req.Outcome = "rejected(" + c.String() + ")"
		return req, status.Error(c, "device rejects the value")
	}
	// gNMI: deletes, then replaces, then updates
	d.Tree.ApplyOps(nil, d.Target, req.Ops)
	req.Outcome = "applied"
	return req, nil
}

// Conn is a fake southbound connection to a device
type Conn struct {
	id     sb.ConnID
	dev    *Device
	w      *World
	inc    *Incarnation
	mu     sync.Mutex
	closed bool
	// subscribe plumbing (C19)
	Subs     []*gnmi.SubscribeRequest
	Handlers []baseClient.ProtoHandler
	Polls    int
}

// Close closes
func (c *Conn) Close() error { return nil }

// Capabilities answers with an empty capability response
func (c *Conn) Capabilities(ctx context.Context, r *gnmi.CapabilityRequest) (*gnmi.CapabilityResponse, error) {
	return &gnmi.CapabilityResponse{}, nil
}

// CapabilitiesWithString is unused
func (c *Conn) CapabilitiesWithString(ctx context.Context, request string) (*gnmi.CapabilityResponse, error) {
	return &gnmi.CapabilityResponse{}, nil
}

// Get answers with an empty response
func (c *Conn) Get(ctx context.Context, r *gnmi.GetRequest) (*gnmi.GetResponse, error) {
	return &gnmi.GetResponse{}, nil
}

// GetWithString is unused
func (c *Conn) GetWithString(ctx context.Context, request string) (*gnmi.GetResponse, error) {
	return &gnmi.GetResponse{}, nil
}

// Set forwards the request to the device; errors leave through errors.FromGRPC exactly as the real client's do
func (c *Conn) Set(ctx context.Context, r *gnmi.SetRequest) (*gnmi.SetResponse, error) {
	c.inc.gate("dev.Set", true)
	c.mu.Lock()
	closed := c.closed
	c.mu.Unlock()
	if closed {
		c.w.logEvent(&Event{Kind: "dev.Set", Target: c.dev.Target, Err: "connection closed", Dev: &DevReq{ConnID: string(c.id), Ops: opsOf(c.dev.Target, r), Outcome: "offline", Task: CurrentTask()}})
		return nil, errors.FromGRPC(status.Error(codes.Unavailable, "connection closed"))
	}
	req, err := c.dev.handle(string(c.id), r)
	ev := &Event{Kind: "dev.Set", Target: c.dev.Target, Dev: req, OK: err == nil, Seq: req.Seq}
	if err != nil {
		ev.Err = err.Error()
	}
	if t := currentTaskObj(); t != nil {
		ev.ReadCfg = t.lastCfg[c.dev.Target]
	}
	c.w.logEventSeq(ev)
	if err != nil {
		return nil, errors.FromGRPC(err)
	}
	return &gnmi.SetResponse{}, nil
}

// SetWithString is unused
func (c *Conn) SetWithString(ctx context.Context, request string) (*gnmi.SetResponse, error) {
	return &gnmi.SetResponse{}, nil
}

// Subscribe records the subscription
func (c *Conn) Subscribe(ctx context.Context, q baseClient.Query) error {
	c.mu.Lock()
	c.Subs = append(c.Subs, q.SubReq)
	c.Handlers = append(c.Handlers, q.ProtoHandler)
	c.mu.Unlock()
	return nil
}

// Poll counts polls
func (c *Conn) Poll() error { c.mu.Lock(); c.Polls++; c.mu.Unlock(); return nil }

// ID returns the connection id
func (c *Conn) ID() sb.ConnID { return c.id }

// TargetID returns the target
func (c *Conn) TargetID() topoapi.ID { return topoapi.ID(c.dev.Target) }

// Conns is a fake gnmi.ConnManager whose connections the scenario creates and drops
type Conns struct {
	mu       sync.Mutex
	conns    map[sb.ConnID]*Conn
	watchers []chan<- sb.Conn
	events   chan sb.Conn
	// requests of the target controller
	connectReqs, disconnectReqs map[string]int
}

// NewConns creates an empty manager
func NewConns() *Conns {
	m := &Conns{conns: map[sb.ConnID]*Conn{}, events: make(chan sb.Conn, 10000)}
	go func() {
		for c := range m.events {
			m.mu.Lock()
			ws := append([]chan<- sb.Conn(nil), m.watchers...)
			m.mu.Unlock()
			for _, w := range ws {
				w <- c
			}
		}
	}()
	return m
}

// Get returns a connection by id
func (m *Conns) Get(ctx context.Context, id sb.ConnID) (sb.Conn, bool) {
	m.mu.Lock()
	defer m.mu.Unlock()
	c, ok := m.conns[id]
	if !ok {
		return nil, false
	}
	return c, true
}

// GetByTarget returns a client for the target
func (m *Conns) GetByTarget(ctx context.Context, targetID topoapi.ID) (sb.Client, error) {
	m.mu.Lock()
	defer m.mu.Unlock()
	for _, c := range m.conns {
		if c.dev.Target == string(targetID) {
			return c, nil
		}
	}
	return nil, errors.NewNotFound("gnmi client for target %s not found", targetID)
}

// Connect does not open anything - the scenario decides when a device is reachable - but the request is counted:
// the target controller has to ask for a connection to every target entity it is shown
func (m *Conns) Connect(ctx context.Context, target *topoapi.Object) error {
	m.mu.Lock()
	if m.connectReqs == nil {
		m.connectReqs = map[string]int{}
	}
	m.connectReqs[string(target.ID)]++
	m.mu.Unlock()
	return nil
}

// Disconnect is counted like Connect
func (m *Conns) Disconnect(ctx context.Context, targetID topoapi.ID) error {
	m.mu.Lock()
	if m.disconnectReqs == nil {
		m.disconnectReqs = map[string]int{}
	}
	m.disconnectReqs[string(targetID)]++
	m.mu.Unlock()
	return nil
}

// ConnectRequests tells how often the target controller asked for a connection to / a disconnection from the target
func (m *Conns) ConnectRequests(target string) (connects, disconnects int) {
	m.mu.Lock()
	defer m.mu.Unlock()
	return m.connectReqs[target], m.disconnectReqs[target]
}

// Watch replays current connections and then streams additions / removals (the same Conn value for both, as the real manager)
func (m *Conns) Watch(ctx context.Context, ch chan<- sb.Conn) error {
	m.mu.Lock()
	var cur []*Conn
	for _, c := range m.conns {
		cur = append(cur, c)
	}
	m.watchers = append(m.watchers, ch)
	m.mu.Unlock()
	for _, c := range cur {
		m.events <- c
	}
	return nil
}

func (m *Conns) add(c *Conn) {
	m.mu.Lock()
	m.conns[c.id] = c
	m.mu.Unlock()
	m.events <- c
}

func (m *Conns) remove(id sb.ConnID) *Conn {
	m.mu.Lock()
	c := m.conns[id]
	delete(m.conns, id)
	m.mu.Unlock()
	if c != nil {
		c.mu.Lock()
		c.closed = true
		c.mu.Unlock()
		m.events <- c
	}
	return c
}

// Current returns the id of the live connection to a target ("" if none)
func (m *Conns) Current(target string) string {
	m.mu.Lock()
	defer m.mu.Unlock()
	for id, c := range m.conns {
		if c.dev.Target == target {
			return string(id)
		}
	}
	return ""
}
