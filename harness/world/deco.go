package world

import (
	"context"
	"fmt"

	configapi "github.com/onosproject/onos-api/go/onos/config/v2"
	topoapi "github.com/onosproject/onos-api/go/onos/topo"
	"github.com/onosproject/onos-config/pkg/store/v2/configuration"
	"github.com/onosproject/onos-config/pkg/store/v2/proposal"
	"github.com/onosproject/onos-config/pkg/store/v2/transaction"
)

// ---------------------------------------------------------------- configuration store

type cfgDeco struct {
	inner configuration.Store
	inc   *Incarnation
}

func (d *cfgDeco) Get(ctx context.Context, id configapi.ConfigurationID) (*configapi.Configuration, error) {
	t := noteEntry(string(id))
	d.inc.gate("cfg.Get", false)
	if err := d.inc.fault("cfg.Get"); err != nil {
		return nil, err
	}
	c, err := d.inner.Get(ctx, id)
	if err == nil && t != nil {
		t.lastCfg[string(c.TargetID)] = cloneCfg(c)
	}
	return c, err
}

func (d *cfgDeco) write(kind string, c *configapi.Configuration, f func() error) error {
	d.inc.gate(kind, true)
	snap := cloneCfg(c)
	err := d.inc.fault(kind)
	if err == nil {
		err = f()
	}
	ev := &Event{Kind: kind, Target: string(c.TargetID), OK: err == nil, Err: errStr(err), Cfg: snap, Inc: d.inc.N}
	if err == nil {
		snap.Version = c.Version
		snap.Revision = c.Revision
	}
	d.inc.w.logEvent(ev)
	return err
}

func (d *cfgDeco) Create(ctx context.Context, c *configapi.Configuration) error {
	return d.write("cfg.Create", c, func() error { return d.inner.Create(ctx, c) })
}
func (d *cfgDeco) Update(ctx context.Context, c *configapi.Configuration) error {
	return d.write("cfg.Update", c, func() error { return d.inner.Update(ctx, c) })
}
func (d *cfgDeco) UpdateStatus(ctx context.Context, c *configapi.Configuration) error {
	return d.write("cfg.UpdateStatus", c, func() error { return d.inner.UpdateStatus(ctx, c) })
}
func (d *cfgDeco) List(ctx context.Context) ([]*configapi.Configuration, error) {
	d.inc.gate("cfg.List", false)
	return d.inner.List(ctx)
}
func (d *cfgDeco) Watch(ctx context.Context, ch chan<- configapi.ConfigurationEvent, opts ...configuration.WatchOption) error {
	d.inc.gate("cfg.Watch", false)
	owner := watchOwner()
	mid := make(chan configapi.ConfigurationEvent)
	go func() {
		for ev := range mid {
			d.inc.w.logEvent(&Event{Kind: "watch.cfg", Target: string(ev.Configuration.TargetID), Inc: d.inc.N, Task: "watcher:" + owner,
				Note: fmt.Sprintf("%s %s v%d", ev.Type, ev.Configuration.ID, ev.Configuration.Version)})
			d.inc.deliveryDelay()
			ch <- ev
		}
		close(ch)
	}()
	return d.inner.Watch(ctx, mid, opts...)
}
func (d *cfgDeco) Close(ctx context.Context) error { return d.inner.Close(ctx) }

// ---------------------------------------------------------------- proposal store

type propDeco struct {
	inner proposal.Store
	inc   *Incarnation
}

func (d *propDeco) Get(ctx context.Context, id configapi.ProposalID) (*configapi.Proposal, error) {
	noteEntry(string(id))
	d.inc.gate("prop.Get", false)
	if err := d.inc.fault("prop.Get"); err != nil {
		return nil, err
	}
	return d.inner.Get(ctx, id)
}
func (d *propDeco) write(kind string, p *configapi.Proposal, f func() error) error {
	d.inc.gate(kind, true)
	snap := cloneProp(p)
	err := d.inc.fault(kind)
	if err == nil {
		err = f()
	}
	if err == nil {
		snap.Version = p.Version
	}
	d.inc.w.logEvent(&Event{Kind: kind, Target: string(p.TargetID), OK: err == nil, Err: errStr(err), Prop: snap, Inc: d.inc.N})
	return err
}
func (d *propDeco) Create(ctx context.Context, p *configapi.Proposal) error {
	return d.write("prop.Create", p, func() error { return d.inner.Create(ctx, p) })
}
func (d *propDeco) Update(ctx context.Context, p *configapi.Proposal) error {
	return d.write("prop.Update", p, func() error { return d.inner.Update(ctx, p) })
}
func (d *propDeco) UpdateStatus(ctx context.Context, p *configapi.Proposal) error {
	return d.write("prop.UpdateStatus", p, func() error { return d.inner.UpdateStatus(ctx, p) })
}
func (d *propDeco) List(ctx context.Context) ([]*configapi.Proposal, error) {
	d.inc.gate("prop.List", false)
	return d.inner.List(ctx)
}
func (d *propDeco) Watch(ctx context.Context, ch chan<- configapi.ProposalEvent, opts ...proposal.WatchOption) error {
	d.inc.gate("prop.Watch", false)
	owner := watchOwner()
	mid := make(chan configapi.ProposalEvent)
	go func() {
		for ev := range mid {
			d.inc.w.logEvent(&Event{Kind: "watch.prop", Target: string(ev.Proposal.TargetID), Inc: d.inc.N, Task: "watcher:" + owner,
				Note: fmt.Sprintf("%s %s v%d", ev.Type, ev.Proposal.ID, ev.Proposal.Version)})
			d.inc.deliveryDelay()
			ch <- ev
		}
		close(ch)
	}()
	return d.inner.Watch(ctx, mid, opts...)
}
func (d *propDeco) Close(ctx context.Context) error { return d.inner.Close(ctx) }

// ---------------------------------------------------------------- transaction store

type txDeco struct {
	inner transaction.Store
	inc   *Incarnation
}

// WatchHook, when set on the world, lets a check interpose on a handler's Watch call (C08)
type WatchHook func(ctx context.Context, ch chan<- configapi.TransactionEvent, call func(ch chan<- configapi.TransactionEvent) error) error

func (d *txDeco) Get(ctx context.Context, id configapi.TransactionID) (*configapi.Transaction, error) {
	d.inc.gate("tx.Get", false)
	return d.inner.Get(ctx, id)
}
func (d *txDeco) GetByIndex(ctx context.Context, index configapi.Index) (*configapi.Transaction, error) {
	noteEntry(fmt.Sprint(uint64(index)))
	d.inc.gate("tx.GetByIndex", false)
	if err := d.inc.fault("tx.GetByIndex"); err != nil {
		return nil, err
	}
	return d.inner.GetByIndex(ctx, index)
}
func (d *txDeco) write(kind string, t *configapi.Transaction, f func() error) error {
	d.inc.gate(kind, true)
	snap := cloneTx(t)
	start := d.inc.w.nextSeq()
	err := d.inc.fault(kind)
	if err == nil {
		err = f()
	}
	if err == nil {
		snap.Version = t.Version
		snap.Index = t.Index
	}
	d.inc.w.logEvent(&Event{Kind: kind, OK: err == nil, Err: errStr(err), Tx: snap, Inc: d.inc.N, StartSeq: start})
	return err
}
func (d *txDeco) Create(ctx context.Context, t *configapi.Transaction) error {
	return d.write("tx.Create", t, func() error { return d.inner.Create(ctx, t) })
}
func (d *txDeco) Update(ctx context.Context, t *configapi.Transaction) error {
	return d.write("tx.Update", t, func() error { return d.inner.Update(ctx, t) })
}
func (d *txDeco) UpdateStatus(ctx context.Context, t *configapi.Transaction) error {
	return d.write("tx.UpdateStatus", t, func() error { return d.inner.UpdateStatus(ctx, t) })
}
func (d *txDeco) List(ctx context.Context) ([]*configapi.Transaction, error) {
	d.inc.gate("tx.List", false)
	return d.inner.List(ctx)
}
func (d *txDeco) Watch(ctx context.Context, ch chan<- configapi.TransactionEvent, opts ...transaction.WatchOption) error {
	d.inc.gate("tx.Watch", false)
	if t := currentTaskObj(); t != nil && t.Ctl == "handler" {
		if h := d.inc.w.handlerWatch.Load(); h != nil {
			return (*h)(ctx, ch, func(c chan<- configapi.TransactionEvent) error { return d.inner.Watch(ctx, c, opts...) })
		}
	}
	owner := watchOwner()
	mid := make(chan configapi.TransactionEvent)
	go func() {
		for ev := range mid {
			d.inc.w.logEvent(&Event{Kind: "watch.tx", Inc: d.inc.N, Task: "watcher:" + owner,
				Note: fmt.Sprintf("%s tx%d v%d %s", ev.Type, ev.Transaction.Index, ev.Transaction.Version, ev.Transaction.Status.State)})
			d.inc.deliveryDelay()
			ch <- ev
		}
		close(ch)
	}()
	return d.inner.Watch(ctx, mid, opts...)
}
func (d *txDeco) Close(ctx context.Context) error { return d.inner.Close(ctx) }

// ---------------------------------------------------------------- topo (per incarnation view: gates only)

type topoDeco struct {
	*Topo
	inc *Incarnation
}

func (d *topoDeco) Create(ctx context.Context, o *topoapi.Object) error {
	d.inc.gate("topo.Create", true)
	start := d.inc.w.nextSeq()
	err := d.Topo.Create(ctx, o)
	d.inc.w.logEvent(&Event{Kind: "topo.Create", OK: err == nil, Err: errStr(err), Note: string(o.ID), Inc: d.inc.N, StartSeq: start})
	return err
}
func (d *topoDeco) Update(ctx context.Context, o *topoapi.Object) error {
	d.inc.gate("topo.Update", true)
	return d.Topo.Update(ctx, o)
}
func (d *topoDeco) Get(ctx context.Context, id topoapi.ID) (*topoapi.Object, error) {
	d.inc.gate("topo.Get", false)
	return d.Topo.Get(ctx, id)
}
func (d *topoDeco) List(ctx context.Context, f *topoapi.Filters) ([]topoapi.Object, error) {
	d.inc.gate("topo.List", false)
	return d.Topo.List(ctx, f)
}
func (d *topoDeco) Delete(ctx context.Context, o *topoapi.Object) error {
	d.inc.gate("topo.Delete", true)
	err := d.Topo.Delete(ctx, o)
	d.inc.w.logEvent(&Event{Kind: "topo.Delete", OK: err == nil, Err: errStr(err), Note: string(o.ID), Inc: d.inc.N})
	return err
}
func (d *topoDeco) Watch(ctx context.Context, ch chan<- topoapi.Event, f *topoapi.Filters) error {
	d.inc.gate("topo.Watch", false)
	return d.Topo.Watch(ctx, ch, f)
}

// watchOwner names who subscribes: the controller package, or the current handler task
func watchOwner() string {
	if t := currentTaskObj(); t != nil && t.Ctl == "handler" {
		return t.Name()
	}
	ctl, _ := callerCtl()
	if ctl == "" {
		return "?"
	}
	return ctl
}
