package world

import (
	"context"
	"encoding/hex"
	"fmt"
	"math"
	"strconv"
	"strings"
	"sync"

	adminapi "github.com/onosproject/onos-api/go/onos/config/admin"
	configapi "github.com/onosproject/onos-api/go/onos/config/v2"
	"github.com/openconfig/gnmi/proto/gnmi"
	"google.golang.org/grpc"
	"google.golang.org/grpc/codes"
	"google.golang.org/grpc/metadata"
	"google.golang.org/grpc/status"

	"verif/refmodel"
)

// PluginDoc is one document the fake plugin was asked to validate
type PluginDoc struct {
	Seq     int64
	Task    string
	Doc     []byte
	Chunks  []int // sizes of the chunks as received
	Valid   bool
	Why     string
	Leaves  refmodel.Tree
	Problem []string
}

// Plugin is a fake ModelPluginServiceClient for a synthetic schema; it sits behind the real registry
type Plugin struct {
	Schema *refmodel.Schema
	w      *World
	mu     sync.Mutex
	Docs   []*PluginDoc
	// FailTransport makes the next n validations fail at transport level
	FailTransport int
}

func vt(n *refmodel.Node) configapi.ValueType {
	if n.Kind == refmodel.LeafList {
		switch n.Type {
		case "string":
			return configapi.ValueType_LEAFLIST_STRING
		case "int":
			return configapi.ValueType_LEAFLIST_INT
		case "uint":
			return configapi.ValueType_LEAFLIST_UINT
		case "bool":
			return configapi.ValueType_LEAFLIST_BOOL
		case "bytes":
			return configapi.ValueType_LEAFLIST_BYTES
		case "decimal":
			return configapi.ValueType_LEAFLIST_DECIMAL
		case "float":
			return configapi.ValueType_LEAFLIST_FLOAT
		}
	}
	switch n.Type {
	case "string":
		return configapi.ValueType_STRING
	case "int":
		return configapi.ValueType_INT
	case "uint":
		return configapi.ValueType_UINT
	case "bool":
		return configapi.ValueType_BOOL
	case "bytes":
		return configapi.ValueType_BYTES
	case "decimal":
		return configapi.ValueType_DECIMAL
	case "float":
		return configapi.ValueType_FLOAT
	}
	return configapi.ValueType_EMPTY
}

// GetModelInfo returns the model's paths in the shape real plugins emit
func (p *Plugin) GetModelInfo(ctx context.Context, in *adminapi.ModelInfoRequest, opts ...grpc.CallOption) (*adminapi.ModelInfoResponse, error) {
	info := &adminapi.ModelInfo{Name: p.Schema.Name, Version: p.Schema.Version,
		ModelData:          []*gnmi.ModelData{{Name: p.Schema.Name, Organization: "verif", Version: "2026-01-01"}},
		SupportedEncodings: []gnmi.Encoding{gnmi.Encoding_JSON_IETF, gnmi.Encoding_PROTO}}
	for _, rw := range p.Schema.RWPaths() {
		e := &adminapi.ReadWritePath{Path: rw.Path, ValueType: vt(rw.Node), IsAKey: rw.IsKey, AttrName: rw.AttrName}
		if rw.Node.Width > 0 {
			e.TypeOpts = []uint64{uint64(rw.Node.Width)}
		}
		info.ReadWritePath = append(info.ReadWritePath, e)
	}
	for path, subs := range p.Schema.ROPaths() {
		ro := &adminapi.ReadOnlyPath{Path: path}
		for _, s := range subs {
			ro.SubPath = append(ro.SubPath, &adminapi.ReadOnlySubPath{SubPath: s, ValueType: configapi.ValueType_UINT, TypeOpts: []uint64{64}})
		}
		info.ReadOnlyPath = append(info.ReadOnlyPath, ro)
	}
	return &adminapi.ModelInfoResponse{ModelInfo: info}, nil
}

func (p *Plugin) validate(doc []byte, chunks []int) (*adminapi.ValidateConfigResponse, error) {
	p.mu.Lock()
	if p.FailTransport > 0 {
		p.FailTransport--
		p.mu.Unlock()
		if p.w != nil {
			p.w.InjectedFault()
		}
		return nil, status.Error(codes.Unavailable, "injected plugin transport failure")
	}
	p.mu.Unlock()
	flat, problems := refmodel.Flatten(p.Schema, doc)
	tree := refmodel.FlatTree(flat)
	ok, why := refmodel.Verdict(tree)
	pd := &PluginDoc{Task: CurrentTask(), Doc: doc, Chunks: chunks, Valid: ok, Why: why, Leaves: tree, Problem: problems}
	if p.w != nil {
		pd.Seq = p.w.nextSeq()
		ev := &Event{Seq: pd.Seq, Kind: "plugin.Validate", OK: ok, Err: why, Doc: pd}
		p.w.logEventSeq(ev)
	}
	p.mu.Lock()
	p.Docs = append(p.Docs, pd)
	p.mu.Unlock()
	return &adminapi.ValidateConfigResponse{Valid: ok, Message: why}, nil
}

// ValidateConfig validates a whole document
func (p *Plugin) ValidateConfig(ctx context.Context, in *adminapi.ValidateConfigRequest, opts ...grpc.CallOption) (*adminapi.ValidateConfigResponse, error) {
	return p.validate(in.Json, []int{len(in.Json)})
}

type chunkStream struct {
	p      *Plugin
	ctx    context.Context
	buf    []byte
	chunks []int
}

func (s *chunkStream) Send(c *adminapi.ValidateConfigRequestChunk) error {
	s.buf = append(s.buf, c.Json...)
	s.chunks = append(s.chunks, len(c.Json))
	return nil
}
func (s *chunkStream) CloseAndRecv() (*adminapi.ValidateConfigResponse, error) {
	return s.p.validate(s.buf, s.chunks)
}
func (s *chunkStream) Header() (metadata.MD, error) { return nil, nil }
func (s *chunkStream) Trailer() metadata.MD         { return nil }
func (s *chunkStream) CloseSend() error             { return nil }
func (s *chunkStream) Context() context.Context     { return s.ctx }
func (s *chunkStream) SendMsg(m interface{}) error  { return nil }
func (s *chunkStream) RecvMsg(m interface{}) error  { return nil }

// ValidateConfigChunked reassembles the chunks and validates
func (p *Plugin) ValidateConfigChunked(ctx context.Context, opts ...grpc.CallOption) (adminapi.ModelPluginService_ValidateConfigChunkedClient, error) {
	if p.w != nil {
		p.w.inc().gate("plugin.Validate", false)
	}
	return &chunkStream{p: p, ctx: ctx}, nil
}

// TypedValueOf converts a reference value to the API's typed value using the schema node's type and width
func TypedValueOf(n *refmodel.Node, v refmodel.Val) (*configapi.TypedValue, error) {
	s := string(v)
	scalar := func(e string) (interface{}, error) {
		if len(e) < 2 {
			return nil, fmt.Errorf("bad value %q", e)
		}
		pl := e[2:]
		switch e[0] {
		case 's':
			return pl, nil
		case 'i':
			return strconv.ParseInt(pl, 10, 64)
		case 'u':
			return strconv.ParseUint(pl, 10, 64)
		case 'b':
			return pl == "true", nil
		case 'y':
			return hex.DecodeString(pl)
		case 'd':
			parts := strings.Split(pl, ":")
			d, err := strconv.ParseInt(parts[0], 10, 64)
			return d, err
		case 'f':
			bits, err := strconv.ParseUint(pl, 16, 32)
			return math.Float32frombits(uint32(bits)), err
		}
		return nil, fmt.Errorf("bad value %q", e)
	}
	w := configapi.Width(n.Width)
	if w == 0 {
		w = configapi.WidthThirtyTwo
	}
	if strings.HasPrefix(s, "l:") {
		var elems []string
		if len(s) > 2 {
			elems = strings.Split(s[2:], "\x1f")
		}
		switch n.Type {
		case "string":
			var out []string
			for _, e := range elems {
				x, err := scalar(e)
				if err != nil {
					return nil, err
				}
				out = append(out, fmt.Sprint(x))
			}
			return configapi.NewLeafListStringTv(out), nil
		case "int":
			var out []int64
			for _, e := range elems {
				x, err := scalar(e)
				if err != nil {
					return nil, err
				}
				out = append(out, x.(int64))
			}
			return configapi.NewLeafListIntTv(out, w), nil
		case "uint":
			var out []uint64
			for _, e := range elems {
				x, err := scalar(e)
				if err != nil {
					return nil, err
				}
				out = append(out, x.(uint64))
			}
			return configapi.NewLeafListUintTv(out, w), nil
		}
		return nil, fmt.Errorf("leaf-list type %s not supported by the fake plugin", n.Type)
	}
	x, err := scalar(s)
	if err != nil {
		return nil, err
	}
	switch n.Type {
	case "string":
		return configapi.NewTypedValueString(fmt.Sprint(x)), nil
	case "int":
		i, ok := x.(int64)
		if !ok {
			if u, ok := x.(uint64); ok {
				i = int64(u)
			} else {
				return nil, fmt.Errorf("not an int: %v", x)
			}
		}
		return configapi.NewTypedValueInt(int(i), w), nil
	case "uint":
		u, ok := x.(uint64)
		if !ok {
			if i, ok := x.(int64); ok {
				u = uint64(i)
			} else {
				return nil, fmt.Errorf("not a uint: %v", x)
			}
		}
		return configapi.NewTypedValueUint(uint(u), w), nil
	case "bool":
		b, _ := x.(bool)
		return configapi.NewTypedValueBool(b), nil
	case "bytes":
		b, _ := x.([]byte)
		return configapi.NewTypedValueBytes(b), nil
	case "decimal":
		d, _ := x.(int64)
		parts := strings.Split(s[2:], ":")
		pr := 0
		if len(parts) > 1 {
			pr, _ = strconv.Atoi(parts[1])
		}
		return configapi.NewTypedValueDecimal(d, uint8(pr)), nil
	case "float":
		f, _ := x.(float32)
		return configapi.NewTypedValueFloat(float64(f)), nil
	}
	return nil, fmt.Errorf("type %s", n.Type)
}

// GetPathValues flattens the JSON of a JSON-encoded Set into typed path values (as a real plugin does with ygot)
func (p *Plugin) GetPathValues(ctx context.Context, in *adminapi.PathValuesRequest, opts ...grpc.CallOption) (*adminapi.PathValuesResponse, error) {
	prefix, err := refmodel.Parse(in.PathPrefix)
	if err != nil {
		return nil, status.Error(codes.InvalidArgument, err.Error())
	}
	// wrap the document so that it is rooted at the schema root
	node := p.Schema.Root
	if len(prefix) > 0 {
		node = p.Schema.NodeOf(prefix)
		if node == nil {
			return nil, status.Error(codes.InvalidArgument, "prefix is not in the model")
		}
	}
	sub := &refmodel.Schema{Name: p.Schema.Name, Version: p.Schema.Version, Root: node}
	flat, problems := refmodel.Flatten(sub, in.Json)
	if len(problems) > 0 {
		return nil, status.Error(codes.InvalidArgument, strings.Join(problems, "; "))
	}
	resp := &adminapi.PathValuesResponse{}
	for _, fl := range flat {
		full := refmodel.Concat(prefix, fl.P)
		n := p.Schema.NodeOf(full)
		if n == nil {
			return nil, status.Error(codes.InvalidArgument, "unknown path "+full.String())
		}
		tv, err := TypedValueOf(n, fl.V)
		if err != nil {
			return nil, status.Error(codes.InvalidArgument, err.Error())
		}
		resp.PathValues = append(resp.PathValues, &configapi.PathValue{Path: full.String(), Value: *tv})
	}
	return resp, nil
}

// GetValueSelection answers with a fixed selection
func (p *Plugin) GetValueSelection(ctx context.Context, in *adminapi.ValueSelectionRequest, opts ...grpc.CallOption) (*adminapi.ValueSelectionResponse, error) {
	return &adminapi.ValueSelectionResponse{Selection: []string{"sel-1", "sel-2"}}, nil
}

// GetValueSelectionChunked is not used by the code under test
func (p *Plugin) GetValueSelectionChunked(ctx context.Context, opts ...grpc.CallOption) (adminapi.ModelPluginService_GetValueSelectionChunkedClient, error) {
	return nil, status.Error(codes.Unimplemented, "not implemented by the fake plugin")
}

// DocsCopy returns the documents seen so far
func (p *Plugin) DocsCopy() []*PluginDoc {
	p.mu.Lock()
	defer p.mu.Unlock()
	return append([]*PluginDoc(nil), p.Docs...)
}
