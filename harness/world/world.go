package world

import (
	"context"
	"fmt"
	"os"
	"sort"
	"strings"
	"sync"
	"sync/atomic"
	"time"
	"verif/atomixtap"

	adminapi "github.com/onosproject/onos-api/go/onos/config/admin"
	configapi "github.com/onosproject/onos-api/go/onos/config/v2"
	topoapi "github.com/onosproject/onos-api/go/onos/topo"
	connctl "github.com/onosproject/onos-config/pkg/controller/connection"
	tgtctl "github.com/onosproject/onos-config/pkg/controller/target"
	ctlutils "github.com/onosproject/onos-config/pkg/controller/utils"
	cfgctl "github.com/onosproject/onos-config/pkg/controller/v2/configuration"
	mstctl "github.com/onosproject/onos-config/pkg/controller/v2/mastership"
	propctl "github.com/onosproject/onos-config/pkg/controller/v2/proposal"
	txctl "github.com/onosproject/onos-config/pkg/controller/v2/transaction"
	nbadmin "github.com/onosproject/onos-config/pkg/northbound/admin"
	nb "github.com/onosproject/onos-config/pkg/northbound/gnmi/v2"
	"github.com/onosproject/onos-config/pkg/pluginregistry"
	sb "github.com/onosproject/onos-config/pkg/southbound/gnmi"
	"github.com/onosproject/onos-config/pkg/store/v2/configuration"
	"github.com/onosproject/onos-config/pkg/store/v2/proposal"
	"github.com/onosproject/onos-config/pkg/store/v2/transaction"
	"github.com/onosproject/onos-lib-go/pkg/controller"
	"github.com/onosproject/onos-lib-go/pkg/logging"

	"verif/refmodel"
)

func init() {
	logging.SetLevel(logging.FatalLevel)
	if os.Getenv("POD_ID") == "" {
		_ = os.Setenv("POD_ID", "onos-config-0")
	}
}

// Event is one entry of the world's event log: a decorated store, device or plugin call
type Event struct {
	Seq      int64
	AtMs     int64 // milliseconds since the world was created (debugging aid; no oracle reads it)
	StartSeq int64 // writes: sequence number taken just before the real call started
	Inc      int
	Task     string
	TaskSer  int64
	Kind     string // tx.Create tx.UpdateStatus prop.Create prop.UpdateStatus cfg.Create cfg.Update cfg.UpdateStatus dev.Set plugin.Validate env.*
	Target   string
	OK       bool
	Err      string
	Cfg      *configapi.Configuration // what was written (deep copy taken before the call), Version = version after when OK
	Prop     *configapi.Proposal
	Tx       *configapi.Transaction
	Dev      *DevReq
	Doc      *PluginDoc
	ReadCfg  *configapi.Configuration // dev.Set: the configuration the issuing task had read
	Note     string
}

// World is one simulated deployment: one Atomix cluster (the "disk"), one topology, devices,
// and a sequence of onos-config process incarnations
type World struct {
	Atomix   *atomixtap.Client
	Topo     *Topo
	Schema   *refmodel.Schema
	Plugin   *Plugin
	Registry pluginregistry.PluginRegistry
	Devices  map[string]*Device

	born   time.Time
	mu     sync.Mutex
	events []*Event
	seq    int64

	cur        *Incarnation
	incCount   int
	effects    int64    // attempted persisted effects (store writes, device Sets), across incarnations
	writes     int64    // successful store writes + device requests (stability detection)
	lastChange int64    // unix nanos of the last successful write / device request / env action
	crashAt    int64    // kill the incarnation just before this effect (0 = never)
	rpcStart   sync.Map // goroutine id -> start time of its Atomix RPC in flight
	slowRPCs   int64
	crashAtRPC int64 // kill the incarnation just before this Atomix write RPC (0 = never)
	rpcWrites  int64 // Atomix write RPCs issued by the system under test
	Crashed    chan struct{}
	connGen    map[string]int

	// hooks set by the check while the controllers are already running (hence atomic)
	delay        atomic.Pointer[func(kind string)]
	storeFault   atomic.Pointer[func(kind string) error]
	handlerWatch atomic.Pointer[WatchHook]
	storeRPCHook atomic.Pointer[func(method string)]
}

// SetStoreRPCHook installs a function called after every unary Atomix RPC that a goroutine without a task
// (a store's own goroutines: watch replay, fan-out) has issued; C08 uses it to hold a Watch between its replay
// read and whatever it does next
func (w *World) SetStoreRPCHook(f func(method string)) { w.storeRPCHook.Store(&f) }

// SetDelay installs a function called at every decorated call (S2 schedule perturbation)
func (w *World) SetDelay(f func(kind string)) { w.delay.Store(&f) }

// SetStoreFault installs a function asked before every store call of a controller task; a non-nil error is
// returned to the caller instead of performing the call (transient store unavailability)
func (w *World) SetStoreFault(f func(kind string) error) { w.storeFault.Store(&f) }

// SetHandlerWatch interposes on the Watch call of northbound handlers (C08)
func (w *World) SetHandlerWatch(h WatchHook) { w.handlerWatch.Store(&h) }

// Incarnation is one run of the onos-config process: store objects, controllers, servers, connection manager
type Incarnation struct {
	N      int
	w      *World
	dead   atomic.Bool
	Txs    transaction.Store
	Props  proposal.Store
	Cfgs   configuration.Store
	RawTxs transaction.Store
	RawPr  proposal.Store
	RawCf  configuration.Store
	Conns  *Conns
	Server *nb.Server
	Admin  nbadmin.Server
	ctls   []*controller.Controller
}

// Options configure a world
type Options struct {
	Targets       []string
	NoControllers bool // handlers only (C12, C13, ...)
	SetSizeLimit  int
	ExtraTargets  map[string][2]string // target -> (type, version) for targets without plugin etc.
}

// New builds a world with the default synthetic schema and starts the first incarnation
func New(opts Options) (*World, error) {
	w := &World{born: time.Now(), Atomix: atomixtap.NewClient(), Topo: NewTopo(), Schema: refmodel.DefaultSchema(), Devices: map[string]*Device{},
		Crashed: make(chan struct{}, 16), connGen: map[string]int{}}
	w.Plugin = &Plugin{Schema: w.Schema, w: w}
	w.Registry = pluginregistry.NewPluginRegistry("fake-plugin-endpoint")
	w.Registry.NewClientFn(func(endpoint string) (adminapi.ModelPluginServiceClient, error) { return w.Plugin, nil })
	w.Registry.Start()
	ctx := context.Background()
	_ = w.Topo.Create(ctx, &topoapi.Object{ID: ctlutils.GetOnosConfigID(), Type: topoapi.Object_ENTITY,
		Obj: &topoapi.Object_Entity{Entity: &topoapi.Entity{KindID: topoapi.ONOS_CONFIG}}})
	for _, t := range opts.Targets {
		w.AddTarget(t, w.Schema.Name, w.Schema.Version)
	}
	for t, tv := range opts.ExtraTargets {
		w.AddTarget(t, tv[0], tv[1])
	}
	if err := w.startIncarnation(opts); err != nil {
		return nil, err
	}
	return w, nil
}

// AddTarget creates the topo entity (with Configurable aspect) and the fake device of a target
func (w *World) AddTarget(id, typ, version string) {
	e := &topoapi.Object{ID: topoapi.ID(id), Type: topoapi.Object_ENTITY, Obj: &topoapi.Object_Entity{Entity: &topoapi.Entity{KindID: "devicesim"}}}
	_ = e.SetAspect(&topoapi.Configurable{Type: typ, Version: version, Target: id})
	_ = w.Topo.Create(context.Background(), e)
	w.mu.Lock()
	w.Devices[id] = &Device{Target: id, Tree: refmodel.Tree{}, w: w}
	w.mu.Unlock()
}

func (w *World) inc() *Incarnation {
	w.mu.Lock()
	defer w.mu.Unlock()
	return w.cur
}

// HasControllers tells whether the incarnation runs the controllers
func (inc *Incarnation) HasControllers() bool { return len(inc.ctls) > 0 }

// Cur returns the live incarnation
func (w *World) Cur() *Incarnation { return w.inc() }

func (w *World) nextSeq() int64 { return atomic.AddInt64(&w.seq, 1) }

func (w *World) logEvent(e *Event) {
	e.Seq = w.nextSeq()
	w.logEventSeq(e)
}

func (w *World) logEventSeq(e *Event) {
	e.AtMs = time.Since(w.born).Milliseconds()
	if e.Task == "" {
		if t := currentTaskObj(); t != nil {
			e.Task = t.Name()
			e.TaskSer = t.Serial
		}
	}
	w.mu.Lock()
	if w.cur != nil && e.Inc == 0 {
		e.Inc = w.cur.N
	}
	w.events = append(w.events, e)
	w.mu.Unlock()
	// progress = successful writes, accepted device requests and environment actions; a request that is refused,
	// faulted or sent into a closed connection is not progress (a retry loop of those is a stable state)
	if e.OK || strings.HasPrefix(e.Kind, "env.") {
		if e.Kind != "plugin.Validate" {
			atomic.AddInt64(&w.writes, 1)
			atomic.StoreInt64(&w.lastChange, time.Now().UnixNano())
		}
	}
}

// Events returns a copy of the event log, ordered by sequence number
func (w *World) Events() []*Event {
	w.mu.Lock()
	out := append([]*Event(nil), w.events...)
	w.mu.Unlock()
	sort.SliceStable(out, func(i, j int) bool { return out[i].Seq < out[j].Seq })
	return out
}

// Mark logs a harness-level event and returns its sequence number
func (w *World) Mark(kind string) int64 {
	e := &Event{Kind: kind, OK: true}
	w.logEvent(e)
	return e.Seq
}

// InjectedFault records that the environment made a call fail with a transient injected error: that is an
// environment action (the retry it provokes may sit in the controllers' maximum back-off), so it restarts the
// stability window exactly like a connect or a disconnect does
func (w *World) InjectedFault() {
	atomic.StoreInt64(&w.lastChange, time.Now().UnixNano())
}

// Writes is the number of successful writes / device requests / environment actions so far
func (w *World) Writes() int64 { return atomic.LoadInt64(&w.writes) }

// Effects is the number of attempted persisted effects so far
func (w *World) Effects() int64 { return atomic.LoadInt64(&w.effects) }

// NowMs is the world's clock in the unit of Event.AtMs
func (w *World) NowMs() int64 { return time.Since(w.born).Milliseconds() }

// SinceLastChange is the time since the last write
func (w *World) SinceLastChange() time.Duration {
	return time.Duration(time.Now().UnixNano() - atomic.LoadInt64(&w.lastChange))
}

// CrashBeforeEffect arms a kill of the current incarnation just before the n-th attempted persisted effect (absolute count)
func (w *World) CrashBeforeEffect(n int64) { atomic.StoreInt64(&w.crashAt, n) }

// gate is called by every decorator before it touches the real object. A dead incarnation's
// goroutines park here forever, which is what a killed process looks like from outside.
func (inc *Incarnation) gate(kind string, effect bool) {
	if inc.dead.Load() {
		select {}
	}
	w := inc.w
	if effect {
		n := atomic.AddInt64(&w.effects, 1)
		if c := atomic.LoadInt64(&w.crashAt); c > 0 && n == c {
			inc.dead.Store(true)
			w.logEvent(&Event{Kind: "env.crash", OK: true, Note: fmt.Sprintf("process killed just before effect %d (%s by %s)", n, kind, CurrentTask()), Inc: inc.N})
			select {
			case w.Crashed <- struct{}{}:
			default:
			}
			select {}
		}
	}
	if d := w.delay.Load(); d != nil {
		(*d)(kind)
	}
}

// deliveryDelay lets the scenario stretch the delivery of a watch event to one watcher (the streams of the other
// watchers go on): watch streams are asynchronous, so every relative order of deliveries to different watchers is legal
func (inc *Incarnation) deliveryDelay() {
	if inc.dead.Load() {
		return
	}
	if d := inc.w.delay.Load(); d != nil {
		(*d)("watch.deliver")
	}
}

// rpcTap is called before every unary Atomix RPC issued through this incarnation's stores, in the caller's
// goroutine. Goroutines of the system under test (controller tasks, handlers) are parked here once the
// incarnation is dead, and the process can be killed just before its n-th Atomix write: that addresses the
// gaps between the individual Atomix writes of one store method (path values, then the entry).
func (inc *Incarnation) rpcTap(method string, after bool) {
	// substrate latency: an RPC of the system under test that takes longer than 200 ms is evidence that the
	// machine is starved; it restarts the stability window (see Exec.Settle) - slowness must never look like silence
	if t := currentTaskObj(); t != nil && !inc.dead.Load() {
		g := goid()
		if !after {
			inc.w.rpcStart.Store(g, time.Now())
		} else if v, ok := inc.w.rpcStart.LoadAndDelete(g); ok {
			if d := time.Since(v.(time.Time)); d > 200*time.Millisecond {
				atomic.AddInt64(&inc.w.slowRPCs, 1)
				inc.w.InjectedFault()
			}
		}
	}
	if currentTaskObj() == nil {
		// the harness' own reads and store-internal goroutines (watch replay, fan-out): only the optional hook
		if h := inc.w.storeRPCHook.Load(); h != nil && after && !inc.dead.Load() {
			(*h)(method)
		}
		return
	}
	if after {
		return
	}
	if inc.dead.Load() {
		select {}
	}
	if !isWriteRPC(method) {
		return
	}
	w := inc.w
	n := atomic.AddInt64(&w.rpcWrites, 1)
	if c := atomic.LoadInt64(&w.crashAtRPC); c > 0 && n == c {
		inc.dead.Store(true)
		w.logEvent(&Event{Kind: "env.crash", OK: true, Note: fmt.Sprintf("process killed just before Atomix write %d (rpc.%s by %s)", n, method[strings.LastIndex(method, ".")+1:], CurrentTask()), Inc: inc.N})
		select {
		case w.Crashed <- struct{}{}:
		default:
		}
		select {}
	}
}

func isWriteRPC(method string) bool {
	switch method[strings.LastIndex(method, "/")+1:] {
	case "Put", "Insert", "Update", "Remove", "Clear", "Append", "Commit", "Apply", "Set", "Delete":
		return true
	}
	return false
}

// CrashBeforeRPC kills the incarnation just before the n-th Atomix write RPC issued by the system under test
func (w *World) CrashBeforeRPC(n int64) { atomic.StoreInt64(&w.crashAtRPC, n) }

// SlowRPCs is the number of Atomix RPCs of the system under test that took longer than 200 ms
func (w *World) SlowRPCs() int64 { return atomic.LoadInt64(&w.slowRPCs) }

// OldestRPCInFlight is the age of the oldest Atomix RPC of the system under test that has not returned yet
func (w *World) OldestRPCInFlight() time.Duration {
	var oldest time.Duration
	w.rpcStart.Range(func(_, v interface{}) bool {
		if d := time.Since(v.(time.Time)); d > oldest {
			oldest = d
		}
		return true
	})
	return oldest
}

// RPCWrites is the number of Atomix write RPCs issued by the system under test so far
func (w *World) RPCWrites() int64 { return atomic.LoadInt64(&w.rpcWrites) }

// fault returns an injected transient store error for calls made by controller tasks
func (inc *Incarnation) fault(kind string) error {
	fp := inc.w.storeFault.Load()
	if fp == nil {
		return nil
	}
	f := *fp
	t := currentTaskObj()
	if t == nil || t.Ctl == "handler" {
		return nil
	}
	err := f(kind)
	if err != nil {
		inc.w.InjectedFault()
	}
	return err
}

// Kill kills the current incarnation now
func (w *World) Kill() {
	inc := w.inc()
	inc.dead.Store(true)
	w.logEvent(&Event{Kind: "env.crash", OK: true, Note: "process killed", Inc: inc.N})
}

func (w *World) startIncarnation(opts Options) error {
	w.mu.Lock()
	w.incCount++
	inc := &Incarnation{N: w.incCount, w: w, Conns: NewConns()}
	w.mu.Unlock()
	var err error
	tapped := w.Atomix.Tapped(inc.rpcTap)
	// the system under test gets its own store objects (tapped); the harness observes through a second set, so
	// that a goroutine of a killed incarnation, parked inside a store method with the store's lock held, can
	// never block the harness
	sutCf, err := configuration.NewAtomixStore(tapped)
	if err != nil {
		return err
	}
	sutPr, err := proposal.NewAtomixStore(tapped)
	if err != nil {
		return err
	}
	sutTxs, err := transaction.NewAtomixStore(tapped)
	if err != nil {
		return err
	}
	if inc.RawCf, err = configuration.NewAtomixStore(w.Atomix); err != nil {
		return err
	}
	if inc.RawPr, err = proposal.NewAtomixStore(w.Atomix); err != nil {
		return err
	}
	if inc.RawTxs, err = transaction.NewAtomixStore(w.Atomix); err != nil {
		return err
	}
	inc.Cfgs = &cfgDeco{inner: sutCf, inc: inc}
	inc.Props = &propDeco{inner: sutPr, inc: inc}
	inc.Txs = &txDeco{inner: sutTxs, inc: inc}
	topo := &topoDeco{Topo: w.Topo, inc: inc}
	inc.Server = nb.NewServerForVerif(topo, inc.Txs, inc.Props, inc.Cfgs, w.Registry, inc.Conns, opts.SetSizeLimit)
	inc.Admin = nbadmin.NewServerForVerif(inc.Txs, inc.Cfgs, w.Registry)
	w.mu.Lock()
	w.cur = inc
	w.mu.Unlock()
	if !opts.NoControllers {
		inc.ctls = []*controller.Controller{
			connctl.NewController(topo, inc.Conns),
			tgtctl.NewController(topo, inc.Conns),
			mstctl.NewController(topo, inc.Cfgs),
			cfgctl.NewController(topo, inc.Conns, inc.Cfgs),
			propctl.NewController(topo, inc.Conns, inc.Props, inc.Cfgs, w.Registry),
			txctl.NewController(inc.Txs, inc.Props),
		}
		for _, c := range inc.ctls {
			if err := c.Start(); err != nil {
				return err
			}
		}
		// The controllers activate asynchronously and the Atomix client registers a watch partition by
		// partition; give the subscriptions a moment before the scenario starts (environment warm-up, not a verdict).
		time.Sleep(150 * time.Millisecond)
	}
	return nil
}

// Restart starts a new incarnation on the same cluster, topology and devices (the old one must have been killed).
// Devices that were connected are connected again under new connection ids, as the real connection manager would do.
func (w *World) Restart(opts Options, reconnect []string) error {
	if err := w.startIncarnation(opts); err != nil {
		return err
	}
	w.logEvent(&Event{Kind: "env.restart", OK: true, Note: "new process incarnation"})
	for _, t := range reconnect {
		w.Connect(t)
	}
	return nil
}

// Connect opens a connection from the current incarnation to the target's device (a new ConnID every time)
func (w *World) Connect(target string) string {
	inc := w.inc()
	w.mu.Lock()
	w.connGen[target]++
	id := fmt.Sprintf("conn-%s-%d", target, w.connGen[target])
	dev := w.Devices[target]
	w.mu.Unlock()
	c := &Conn{id: sb.ConnID(id), dev: dev, w: w, inc: inc}
	w.logEvent(&Event{Kind: "env.connect", Target: target, OK: true, Note: id})
	inc.Conns.add(c)
	return id
}

// Disconnect drops the current connection of the target (if any)
func (w *World) Disconnect(target string) {
	inc := w.inc()
	if id := inc.Conns.Current(target); id != "" {
		w.logEvent(&Event{Kind: "env.disconnect", Target: target, OK: true, Note: id})
		inc.Conns.remove(sb.ConnID(id))
	}
}

// ForeignRelation creates (or, when it exists, deletes) a CONTROLS relation from ANOTHER onos-config node to the
// target, as a second replica's connection controller would. This node must never elect it: it has no such connection.
func (w *World) ForeignRelation(target string) (string, bool) {
	id := "conn-foreign-" + target
	ctx := context.Background()
	if o, err := w.Topo.Get(ctx, topoapi.ID(id)); err == nil {
		_ = w.Topo.Delete(ctx, o)
		w.logEvent(&Event{Kind: "env.foreign-relation-removed", Target: target, OK: true, Note: id})
		return id, false
	}
	_ = w.Topo.Create(ctx, &topoapi.Object{ID: topoapi.ID(id), Type: topoapi.Object_RELATION, Obj: &topoapi.Object_Relation{Relation: &topoapi.Relation{
		KindID: topoapi.CONTROLS, SrcEntityID: "gnmi:onos-config-9", TgtEntityID: topoapi.ID(target)}}})
	w.logEvent(&Event{Kind: "env.foreign-relation", Target: target, OK: true, Note: id})
	return id, true
}

// Connected tells whether the target has a live connection in the current incarnation
func (w *World) Connected(target string) bool { return w.inc().Conns.Current(target) != "" }

// Close releases the cluster
func (w *World) Close() {
	if inc := w.inc(); inc != nil {
		for _, c := range inc.ctls {
			c.Stop()
		}
	}
	w.Atomix.Close()
	// goroutines of the real code that outlive the case (parked incarnations, watch pumps) keep the world
	// reachable: drop the bulk so that a child process running many cases stays small
	w.mu.Lock()
	w.events = nil
	w.mu.Unlock()
	for _, d := range w.Devices {
		d.mu.Lock()
		d.Log = nil
		d.mu.Unlock()
	}
	if w.Plugin != nil {
		w.Plugin.mu.Lock()
		w.Plugin.Docs = nil
		w.Plugin.mu.Unlock()
	}
}

func cloneCfg(c *configapi.Configuration) *configapi.Configuration {
	if c == nil {
		return nil
	}
	b, _ := c.Marshal()
	n := &configapi.Configuration{}
	_ = n.Unmarshal(b)
	return n
}
func cloneProp(c *configapi.Proposal) *configapi.Proposal {
	if c == nil {
		return nil
	}
	b, _ := c.Marshal()
	n := &configapi.Proposal{}
	_ = n.Unmarshal(b)
	return n
}
func cloneTx(c *configapi.Transaction) *configapi.Transaction {
	if c == nil {
		return nil
	}
	b, _ := c.Marshal()
	n := &configapi.Transaction{}
	_ = n.Unmarshal(b)
	return n
}

func errStr(err error) string {
	if err == nil {
		return ""
	}
	return err.Error()
}
