// Package world is the simulated environment around the real onos-config code: an in-memory
// topology store, fake devices and connection manager, a fake model-plugin service behind the
// real plugin registry, and decorators that log every store / device / plugin call.
package world

import (
	"context"
	"sort"
	"sync"

	topoapi "github.com/onosproject/onos-api/go/onos/topo"
	"github.com/onosproject/onos-lib-go/pkg/errors"
)

// Topo is an in-memory topo.Store with ordered, replaying watches
type Topo struct {
	mu       sync.Mutex
	objs     map[topoapi.ID]*topoapi.Object
	rev      uint64
	watchers map[int]*topoWatch
	nextW    int
	gate     func(op string) // called before every operation (crash / delay hook)
	// FailNext makes the next n calls of the given op fail with Unavailable
	failNext map[string]int
}

type topoWatch struct {
	q      chan topoapi.Event
	cancel chan struct{}
}

// NewTopo creates an empty topology
func NewTopo() *Topo {
	return &Topo{objs: map[topoapi.ID]*topoapi.Object{}, watchers: map[int]*topoWatch{}, failNext: map[string]int{}}
}

func cloneObj(o *topoapi.Object) *topoapi.Object {
	b, _ := o.Marshal()
	n := &topoapi.Object{}
	_ = n.Unmarshal(b)
	return n
}

func (t *Topo) hook(op string) error {
	if g := t.gate; g != nil {
		g(op)
	}
	t.mu.Lock()
	defer t.mu.Unlock()
	if t.failNext[op] > 0 {
		t.failNext[op]--
		return errors.NewUnavailable("injected topo failure")
	}
	return nil
}

func (t *Topo) emit(typ topoapi.EventType, o *topoapi.Object) {
	// called with t.mu held: enqueue in order into every watcher's unbounded queue
	for _, w := range t.watchers {
		select {
		case w.q <- topoapi.Event{Type: typ, Object: *cloneObj(o)}:
		default:
			// queue full: drop is not acceptable, block-free fallback via goroutine keeps order per watcher rarely needed
			go func(w *topoWatch, e topoapi.Event) {
				select {
				case w.q <- e:
				case <-w.cancel:
				}
			}(w, topoapi.Event{Type: typ, Object: *cloneObj(o)})
		}
	}
}

// Create creates an object
func (t *Topo) Create(ctx context.Context, o *topoapi.Object) error {
	if err := t.hook("Create"); err != nil {
		return err
	}
	t.mu.Lock()
	defer t.mu.Unlock()
	if _, ok := t.objs[o.ID]; ok {
		return errors.NewAlreadyExists("object %s exists", o.ID)
	}
	t.rev++
	n := cloneObj(o)
	n.Revision = topoapi.Revision(t.rev)
	t.objs[o.ID] = n
	o.Revision = n.Revision
	t.emit(topoapi.EventType_ADDED, n)
	return nil
}

// Update updates an object
func (t *Topo) Update(ctx context.Context, o *topoapi.Object) error {
	if err := t.hook("Update"); err != nil {
		return err
	}
	t.mu.Lock()
	defer t.mu.Unlock()
	if _, ok := t.objs[o.ID]; !ok {
		return errors.NewNotFound("object %s not found", o.ID)
	}
	t.rev++
	n := cloneObj(o)
	n.Revision = topoapi.Revision(t.rev)
	t.objs[o.ID] = n
	t.emit(topoapi.EventType_UPDATED, n)
	return nil
}

// Get gets an object
func (t *Topo) Get(ctx context.Context, id topoapi.ID) (*topoapi.Object, error) {
	if err := t.hook("Get"); err != nil {
		return nil, err
	}
	t.mu.Lock()
	defer t.mu.Unlock()
	o, ok := t.objs[id]
	if !ok {
		return nil, errors.NewNotFound("topo object %s not found", id)
	}
	return cloneObj(o), nil
}

// List lists objects honouring the filters the code under test uses
func (t *Topo) List(ctx context.Context, filters *topoapi.Filters) ([]topoapi.Object, error) {
	if err := t.hook("List"); err != nil {
		return nil, err
	}
	t.mu.Lock()
	defer t.mu.Unlock()
	var ids []string
	for id := range t.objs {
		ids = append(ids, string(id))
	}
	sort.Strings(ids)
	var out []topoapi.Object
	for _, id := range ids {
		o := t.objs[topoapi.ID(id)]
		if filters != nil && filters.RelationFilter != nil {
			r := o.GetRelation()
			if r == nil || string(r.KindID) != filters.RelationFilter.RelationKind || (filters.RelationFilter.SrcId != "" && string(r.SrcEntityID) != filters.RelationFilter.SrcId) {
				continue
			}
		}
		if filters != nil && filters.ObjectTypes != nil {
			ok := false
			for _, ot := range filters.ObjectTypes {
				if ot == o.Type {
					ok = true
				}
			}
			if !ok {
				continue
			}
		}
		if filters != nil && len(filters.WithAspects) > 0 {
			ok := true
			for _, a := range filters.WithAspects {
				if o.Aspects == nil || o.Aspects[a] == nil {
					ok = false
				}
			}
			if !ok {
				continue
			}
		}
		out = append(out, *cloneObj(o))
	}
	return out, nil
}

// Delete deletes an object
func (t *Topo) Delete(ctx context.Context, o *topoapi.Object) error {
	if err := t.hook("Delete"); err != nil {
		return err
	}
	t.mu.Lock()
	defer t.mu.Unlock()
	old, ok := t.objs[o.ID]
	if !ok {
		return errors.NewNotFound("object %s not found", o.ID)
	}
	delete(t.objs, o.ID)
	t.rev++
	t.emit(topoapi.EventType_REMOVED, old)
	return nil
}

// Watch streams existing objects (type NONE) and then every later event, in order
func (t *Topo) Watch(ctx context.Context, ch chan<- topoapi.Event, filters *topoapi.Filters) error {
	t.mu.Lock()
	w := &topoWatch{q: make(chan topoapi.Event, 100000), cancel: make(chan struct{})}
	var ids []string
	for id := range t.objs {
		ids = append(ids, string(id))
	}
	sort.Strings(ids)
	for _, id := range ids {
		w.q <- topoapi.Event{Type: topoapi.EventType_NONE, Object: *cloneObj(t.objs[topoapi.ID(id)])}
	}
	id := t.nextW
	t.nextW++
	t.watchers[id] = w
	t.mu.Unlock()
	go func() {
		defer func() {
			t.mu.Lock()
			delete(t.watchers, id)
			t.mu.Unlock()
			close(w.cancel)
		}()
		for {
			select {
			case e := <-w.q:
				select {
				case ch <- e:
				case <-ctx.Done():
					return
				}
			case <-ctx.Done():
				return
			}
		}
	}()
	return nil
}

// FailNext makes the next n calls of op fail
func (t *Topo) FailNext(op string, n int) {
	t.mu.Lock()
	t.failNext[op] = n
	t.mu.Unlock()
}

// Relations returns the CONTROLS relations targeting the given entity
func (t *Topo) Relations(target string) []string {
	t.mu.Lock()
	defer t.mu.Unlock()
	var out []string
	for id, o := range t.objs {
		if r := o.GetRelation(); r != nil && r.KindID == topoapi.CONTROLS && string(r.TgtEntityID) == target {
			out = append(out, string(id))
		}
	}
	sort.Strings(out)
	return out
}

// Has tells whether an object exists
func (t *Topo) Has(id string) bool {
	t.mu.Lock()
	defer t.mu.Unlock()
	_, ok := t.objs[topoapi.ID(id)]
	return ok
}
