package world

import (
	"runtime"
	"strings"
	"sync"
	"sync/atomic"

	configapi "github.com/onosproject/onos-api/go/onos/config/v2"
)

// Task identifies the unit of work a goroutine is executing: one Reconcile(id) of a controller
// or one northbound handler call. It is derived from the call stack at the decorated calls, so
// the real controller wiring (NewController) stays in place.
type Task struct {
	Serial  int64
	Ctl     string // transaction | proposal | configuration | mastership | connection | handler
	ID      string
	lastCfg map[string]*configapi.Configuration // last configuration read per target (for C10)
}

// Name renders ctl:id
func (t *Task) Name() string {
	if t == nil {
		return ""
	}
	return t.Ctl + ":" + t.ID
}

var tasks sync.Map // goid -> *Task
var taskSerial int64

func goid() uint64 {
	var buf [64]byte
	n := runtime.Stack(buf[:], false)
	// "goroutine 123 [running]:"
	var id uint64
	for i := len("goroutine "); i < n; i++ {
		c := buf[i]
		if c < '0' || c > '9' {
			break
		}
		id = id*10 + uint64(c-'0')
	}
	return id
}

// SetTask declares what the current goroutine is doing (used by the harness for handler calls)
func SetTask(ctl, id string) func() {
	g := goid()
	tasks.Store(g, &Task{Serial: atomic.AddInt64(&taskSerial, 1), Ctl: ctl, ID: id, lastCfg: map[string]*configapi.Configuration{}})
	return func() { tasks.Delete(g) }
}

func currentTaskObj() *Task {
	if t, ok := tasks.Load(goid()); ok {
		return t.(*Task)
	}
	return nil
}

// CurrentTask names the current goroutine's task
func CurrentTask() string { return currentTaskObj().Name() }

// callerCtl inspects the stack: it returns the controller package of the innermost onos-config
// controller frame and whether that frame is the Reconcile entry point itself.
func callerCtl() (ctl string, entry bool) {
	var pcs [24]uintptr
	n := runtime.Callers(3, pcs[:])
	frames := runtime.CallersFrames(pcs[:n])
	for {
		f, more := frames.Next()
		fn := f.Function
		if i := strings.Index(fn, "onos-config/pkg/controller/"); i >= 0 {
			rest := fn[i+len("onos-config/pkg/controller/"):]
			// rest e.g. v2/proposal.(*Reconciler).Reconcile
			dot := strings.Index(rest, ".")
			if dot < 0 {
				return "", false
			}
			pkg := rest[:dot]
			if j := strings.LastIndex(pkg, "/"); j >= 0 {
				pkg = pkg[j+1:]
			}
			return pkg, strings.HasSuffix(rest, "(*Reconciler).Reconcile")
		}
		if !more {
			break
		}
	}
	return "", false
}

// noteEntry is called by the decorators on every Get: when the Get is issued directly by a
// Reconcile entry point it starts a new task for this goroutine.
func noteEntry(id string) *Task {
	ctl, entry := callerCtl()
	g := goid()
	if entry {
		t := &Task{Serial: atomic.AddInt64(&taskSerial, 1), Ctl: ctl, ID: id, lastCfg: map[string]*configapi.Configuration{}}
		tasks.Store(g, t)
		return t
	}
	if t, ok := tasks.Load(g); ok {
		return t.(*Task)
	}
	return nil
}
