package refmodel

import (
	"fmt"
	"sort"
)

// TxIn is one accepted (logged) northbound request, fed to the model in log-index order
type TxIn struct {
	Index         uint64
	Rollback      bool
	RollbackIndex uint64
	Ops           []Op // change: operations after target / prefix resolution
	NoPlugin      map[string]bool
}

// TxOut is the model's prediction for a transaction
type TxOut struct {
	Index     uint64
	Targets   []string
	Committed bool
	Applied   bool     // all targets applied (only meaningful once every target is connected)
	Failure   []string // acceptable failure classes when not Committed or not Applied (one of)
	ApplyFail []string // targets whose device refuses the push
	Reason    string
	// Push is, per target, the operations the device must be sent for this transaction (after commit)
	Push map[string][]Op
}

type txRec struct {
	in       TxIn
	out      *TxOut
	pre      map[string]Tree
	preIndex map[string]uint64
	targets  []string
}

// Model is the sequential specification of the northbound: transactions take effect one after
// another in log-index order; plugin and device verdicts are deterministic functions of the
// candidate configuration / the pushed request.
type Model struct {
	Schema      *Schema
	Cfg         map[string]Tree   // stored configuration per target
	CfgIndex    map[string]uint64 // index of the change the stored configuration currently reflects
	Dev         map[string]Tree   // what the device must hold once every push has been made
	Log         map[uint64]*txRec
	RejectClass string // failure class the device's refusal maps to (default INVALID)
	Outs        []*TxOut
}

// NewModel creates an empty model
func NewModel(s *Schema, targets []string) *Model {
	m := &Model{Schema: s, Cfg: map[string]Tree{}, CfgIndex: map[string]uint64{}, Dev: map[string]Tree{}, Log: map[uint64]*txRec{}, RejectClass: "INVALID"}
	for _, t := range targets {
		m.Cfg[t] = Tree{}
		m.Dev[t] = Tree{}
	}
	return m
}

func targetsOf(ops []Op) []string {
	seen := map[string]bool{}
	var out []string
	for _, o := range ops {
		if !seen[o.Target] {
			seen[o.Target] = true
			out = append(out, o.Target)
		}
	}
	sort.Strings(out)
	return out
}

func opsFor(ops []Op, target string) []Op {
	var out []Op
	for _, o := range ops {
		if o.Target == target {
			out = append(out, o)
		}
	}
	return out
}

func (m *Model) tree(t string) Tree {
	if m.Cfg[t] == nil {
		m.Cfg[t] = Tree{}
	}
	return m.Cfg[t]
}

func (m *Model) dev(t string) Tree {
	if m.Dev[t] == nil {
		m.Dev[t] = Tree{}
	}
	return m.Dev[t]
}

// restoreOps computes what a rollback of the change ops must do to get from post back to pre, path by path
func (m *Model) restoreOps(target string, ops []Op, pre Tree) []Op {
	var out []Op
	done := map[string]bool{}
	for _, o := range ops {
		if o.Target != target {
			continue
		}
		if !o.Del {
			k := o.P.String()
			if done[k] {
				continue
			}
			done[k] = true
			if le, ok := pre[k]; ok {
				out = append(out, Op{Target: target, P: o.P, V: le.V})
			} else {
				out = append(out, Op{Target: target, Del: true, P: o.P, Literal: true})
			}
			continue
		}
		p := o.P
		if n := m.Schema.NodeOf(p); n != nil && n.IsKeyLeaf() {
			p = p.Parent()
		}
		any := false
		for k, le := range pre {
			if le.P.Under(p) {
				any = true
				if !done[k] {
					done[k] = true
					out = append(out, Op{Target: target, P: le.P, V: le.V})
				}
			}
		}
		if !any {
			out = append(out, Op{Target: target, Del: true, P: p})
		}
	}
	return out
}

// Apply feeds the next transaction (indexes must be increasing) and returns the prediction
func (m *Model) Apply(in TxIn) *TxOut {
	out := &TxOut{Index: in.Index, Push: map[string][]Op{}}
	rec := &txRec{in: in, out: out, pre: map[string]Tree{}, preIndex: map[string]uint64{}}
	m.Log[in.Index] = rec
	m.Outs = append(m.Outs, out)
	if !in.Rollback {
		rec.targets = targetsOf(in.Ops)
		out.Targets = rec.targets
		cand := map[string]Tree{}
		for _, t := range rec.targets {
			if in.NoPlugin[t] {
				out.Failure = append(out.Failure, "INVALID")
				out.Reason = "no model plugin for " + t
				continue
			}
			c := m.tree(t).Clone()
			c.ApplyOps(m.Schema, t, in.Ops)
			cand[t] = c
			if ok, why := Verdict(c); !ok {
				out.Failure = append(out.Failure, "INVALID")
				out.Reason = fmt.Sprintf("model rejects %s: %s", t, why)
			}
		}
		if len(out.Failure) > 0 {
			return out
		}
		out.Committed = true
		out.Applied = true
		for _, t := range rec.targets {
			rec.pre[t] = m.tree(t)
			rec.preIndex[t] = m.CfgIndex[t]
			m.Cfg[t] = cand[t]
			m.CfgIndex[t] = in.Index
			push := opsFor(in.Ops, t)
			out.Push[t] = push
			if DeviceRejects(push) {
				out.Applied = false
				out.ApplyFail = append(out.ApplyFail, t)
				out.Failure = append(out.Failure, m.RejectClass)
				out.Reason = "device " + t + " refuses the change"
				continue
			}
			d := m.dev(t)
			d.ApplyOps(m.Schema, t, push)
		}
		return out
	}
	// rollback
	tgt, ok := m.Log[in.RollbackIndex]
	if !ok {
		out.Failure = []string{"NOT_FOUND"}
		out.Reason = "no such transaction"
		return out
	}
	if tgt.in.Rollback {
		out.Failure = []string{"FORBIDDEN"}
		out.Reason = "target is a rollback"
		return out
	}
	rec.targets = tgt.targets
	out.Targets = tgt.targets
	for _, t := range tgt.targets {
		if !tgt.out.Committed || m.CfgIndex[t] != in.RollbackIndex {
			out.Failure = append(out.Failure, "FORBIDDEN")
			out.Reason = fmt.Sprintf("transaction %d is not the latest change of %s", in.RollbackIndex, t)
		}
	}
	if len(out.Failure) > 0 {
		return out
	}
	for _, t := range tgt.targets {
		if ok, why := Verdict(tgt.pre[t]); !ok {
			out.Failure = append(out.Failure, "INVALID")
			out.Reason = "restored configuration invalid: " + why
		}
	}
	if len(out.Failure) > 0 {
		return out
	}
	out.Committed = true
	out.Applied = true
	for _, t := range tgt.targets {
		push := m.restoreOps(t, tgt.in.Ops, tgt.pre[t])
		out.Push[t] = push
		m.Cfg[t] = tgt.pre[t].Clone()
		m.CfgIndex[t] = tgt.preIndex[t]
		if DeviceRejects(push) {
			out.Applied = false
			out.ApplyFail = append(out.ApplyFail, t)
			out.Failure = append(out.Failure, m.RejectClass)
			out.Reason = "device " + t + " refuses the rollback"
			continue
		}
		m.dev(t).ApplyOps(m.Schema, t, push)
	}
	return out
}
