package refmodel

import (
	"encoding/hex"
	"fmt"
	"math"
	"strconv"
	"strings"

	"github.com/openconfig/gnmi/proto/gnmi"
)

// Val is the reference representation of a leaf value: kind + canonical payload.
// Kinds: s string, i int, u uint, b bool, y bytes (hex), d decimal (digits:precision),
// f float32 (IEEE bits in hex), l leaf-list (elements in the same notation, joined by \x1f), e empty
type Val string

func scalarOfGNMI(v *gnmi.TypedValue) (string, bool) {
	switch x := v.GetValue().(type) {
	case *gnmi.TypedValue_StringVal:
		return "s:" + x.StringVal, true
	case *gnmi.TypedValue_AsciiVal:
		return "s:" + x.AsciiVal, true
	case *gnmi.TypedValue_IntVal:
		return "i:" + strconv.FormatInt(x.IntVal, 10), true
	case *gnmi.TypedValue_UintVal:
		return "u:" + strconv.FormatUint(x.UintVal, 10), true
	case *gnmi.TypedValue_BoolVal:
		return "b:" + strconv.FormatBool(x.BoolVal), true
	case *gnmi.TypedValue_BytesVal:
		return "y:" + hex.EncodeToString(x.BytesVal), true
	case *gnmi.TypedValue_DecimalVal:
		return fmt.Sprintf("d:%d:%d", x.DecimalVal.GetDigits(), x.DecimalVal.GetPrecision()), true
	case *gnmi.TypedValue_FloatVal:
		return fmt.Sprintf("f:%08x", math.Float32bits(x.FloatVal)), true
	}
	return "", false
}

// ValOfGNMI converts a gNMI typed value (scalar or leaf-list) into the reference notation
func ValOfGNMI(v *gnmi.TypedValue) Val {
	if v == nil || v.Value == nil {
		return "e:"
	}
	if s, ok := scalarOfGNMI(v); ok {
		return Val(s)
	}
	if ll, ok := v.GetValue().(*gnmi.TypedValue_LeaflistVal); ok {
		var parts []string
		for _, e := range ll.LeaflistVal.GetElement() {
			s, ok := scalarOfGNMI(e)
			if !ok {
				s = "?:" + e.String()
			}
			parts = append(parts, s)
		}
		return Val("l:" + strings.Join(parts, "\x1f"))
	}
	if _, ok := v.GetValue().(*gnmi.TypedValue_AnyVal); ok {
		return "e:"
	}
	return Val("?:" + v.String())
}

func scalarToGNMI(s string) *gnmi.TypedValue {
	if len(s) < 2 {
		return &gnmi.TypedValue{}
	}
	p := s[2:]
	switch s[0] {
	case 's':
		return &gnmi.TypedValue{Value: &gnmi.TypedValue_StringVal{StringVal: p}}
	case 'i':
		n, _ := strconv.ParseInt(p, 10, 64)
		return &gnmi.TypedValue{Value: &gnmi.TypedValue_IntVal{IntVal: n}}
	case 'u':
		n, _ := strconv.ParseUint(p, 10, 64)
		return &gnmi.TypedValue{Value: &gnmi.TypedValue_UintVal{UintVal: n}}
	case 'b':
		return &gnmi.TypedValue{Value: &gnmi.TypedValue_BoolVal{BoolVal: p == "true"}}
	case 'y':
		b, _ := hex.DecodeString(p)
		if b == nil {
			b = []byte{}
		}
		return &gnmi.TypedValue{Value: &gnmi.TypedValue_BytesVal{BytesVal: b}}
	case 'd':
		parts := strings.Split(p, ":")
		d, _ := strconv.ParseInt(parts[0], 10, 64)
		pr, _ := strconv.ParseUint(parts[1], 10, 32)
		return &gnmi.TypedValue{Value: &gnmi.TypedValue_DecimalVal{DecimalVal: &gnmi.Decimal64{Digits: d, Precision: uint32(pr)}}} //nolint
	case 'f':
		bits, _ := strconv.ParseUint(p, 16, 32)
		return &gnmi.TypedValue{Value: &gnmi.TypedValue_FloatVal{FloatVal: math.Float32frombits(uint32(bits))}} //nolint
	}
	return &gnmi.TypedValue{}
}

// ToGNMI converts the reference notation into a gNMI typed value
func (v Val) ToGNMI() *gnmi.TypedValue {
	s := string(v)
	if strings.HasPrefix(s, "l:") {
		arr := &gnmi.ScalarArray{}
		if len(s) > 2 {
			for _, e := range strings.Split(s[2:], "\x1f") {
				arr.Element = append(arr.Element, scalarToGNMI(e))
			}
		}
		return &gnmi.TypedValue{Value: &gnmi.TypedValue_LeaflistVal{LeaflistVal: arr}}
	}
	return scalarToGNMI(s)
}

// S makes a string value
func S(s string) Val { return Val("s:" + s) }

// U makes an unsigned value
func U(n uint64) Val { return Val("u:" + strconv.FormatUint(n, 10)) }

// I makes a signed value
func I(n int64) Val { return Val("i:" + strconv.FormatInt(n, 10)) }

// Str returns the payload of a string value ("" for other kinds)
func (v Val) Str() string {
	if strings.HasPrefix(string(v), "s:") {
		return string(v)[2:]
	}
	return ""
}

// Pretty renders for humans
func (v Val) Pretty() string { return strings.ReplaceAll(string(v), "\x1f", ",") }
