// Package refmodel holds the independent reference models the oracles compare the system
// under test with. It shares no code with onos-config: own path parser, own tree, own JSON walker.
package refmodel

import (
	"fmt"
	"sort"
	"strings"

	"github.com/openconfig/gnmi/proto/gnmi"
)

// KV is one list key
type KV struct{ K, V string }

// Elem is one path element
type Elem struct {
	Name string
	Keys []KV // sorted by key name
}

// Path is a canonical gNMI path
type Path []Elem

// FromGNMI converts prefix+path to the canonical form (v0.4 elems; v0.3 elements are taken as key-less names)
func FromGNMI(paths ...*gnmi.Path) Path {
	var out Path
	for _, p := range paths {
		if p == nil {
			continue
		}
		if len(p.Elem) == 0 {
			for _, e := range p.Element { //nolint
				out = append(out, Elem{Name: e})
			}
			continue
		}
		for _, e := range p.Elem {
			el := Elem{Name: e.Name}
			for k, v := range e.Key {
				el.Keys = append(el.Keys, KV{k, v})
			}
			sort.Slice(el.Keys, func(i, j int) bool { return el.Keys[i].K < el.Keys[j].K })
			out = append(out, el)
		}
	}
	return out
}

// ToGNMI converts to a gNMI path
func (p Path) ToGNMI(target string) *gnmi.Path {
	out := &gnmi.Path{Target: target}
	for _, e := range p {
		pe := &gnmi.PathElem{Name: e.Name}
		if len(e.Keys) > 0 {
			pe.Key = map[string]string{}
			for _, kv := range e.Keys {
				pe.Key[kv.K] = kv.V
			}
		}
		out.Elem = append(out.Elem, pe)
	}
	return out
}

func esc(s string, special byte) string {
	if !strings.ContainsAny(s, string([]byte{special, '\\'})) {
		return s
	}
	var b strings.Builder
	for i := 0; i < len(s); i++ {
		if s[i] == special || s[i] == '\\' {
			b.WriteByte('\\')
		}
		b.WriteByte(s[i])
	}
	return b.String()
}

// String renders the canonical text form: /name[k=v][k2=v2]/..., "/" for the root
func (p Path) String() string {
	if len(p) == 0 {
		return "/"
	}
	var b strings.Builder
	for _, e := range p {
		b.WriteByte('/')
		b.WriteString(esc(e.Name, '/'))
		for _, kv := range e.Keys {
			b.WriteByte('[')
			b.WriteString(kv.K)
			b.WriteByte('=')
			b.WriteString(esc(kv.V, ']'))
			b.WriteByte(']')
		}
	}
	return b.String()
}

// Parse parses the canonical text form with an independent scanner
func Parse(s string) (Path, error) {
	var out Path
	i := 0
	n := len(s)
	if s == "/" || s == "" {
		return out, nil
	}
	for i < n {
		if s[i] != '/' {
			return nil, fmt.Errorf("expected / at %d in %q", i, s)
		}
		i++
		var name strings.Builder
		for i < n && s[i] != '/' && s[i] != '[' {
			if s[i] == '\\' && i+1 < n {
				i++
			}
			name.WriteByte(s[i])
			i++
		}
		el := Elem{Name: name.String()}
		for i < n && s[i] == '[' {
			i++
			var k, v strings.Builder
			for i < n && s[i] != '=' {
				k.WriteByte(s[i])
				i++
			}
			if i >= n {
				return nil, fmt.Errorf("no = in key of %q", s)
			}
			i++
			for i < n && s[i] != ']' {
				if s[i] == '\\' && i+1 < n {
					i++
				}
				v.WriteByte(s[i])
				i++
			}
			if i >= n {
				return nil, fmt.Errorf("no ] in key of %q", s)
			}
			i++
			el.Keys = append(el.Keys, KV{k.String(), v.String()})
		}
		sort.Slice(el.Keys, func(a, b int) bool { return el.Keys[a].K < el.Keys[b].K })
		out = append(out, el)
	}
	return out, nil
}

// MustParse parses or panics (harness-internal constants only)
func MustParse(s string) Path {
	p, err := Parse(s)
	if err != nil {
		panic(err)
	}
	return p
}

// elemCovers reports whether the addressed element q designates element e:
// same name, and every key q gives equals e's (a key-less q addresses every entry of a list)
func elemCovers(q, e Elem) bool {
	if q.Name != e.Name {
		return false
	}
	for _, kv := range q.Keys {
		found := false
		for _, ev := range e.Keys {
			if ev.K == kv.K && ev.V == kv.V {
				found = true
			}
		}
		if !found {
			return false
		}
	}
	return true
}

// Under reports whether p is q or lies beneath q, at path-element boundaries
func (p Path) Under(q Path) bool {
	if len(q) > len(p) {
		return false
	}
	for i := range q {
		if i == len(q)-1 {
			if !elemCovers(q[i], p[i]) {
				return false
			}
		} else if !elemEq(q[i], p[i]) {
			return false
		}
	}
	return true
}

func elemEq(a, b Elem) bool {
	if a.Name != b.Name || len(a.Keys) != len(b.Keys) {
		return false
	}
	for i := range a.Keys {
		if a.Keys[i] != b.Keys[i] {
			return false
		}
	}
	return true
}

// Equal compares two paths
func (p Path) Equal(q Path) bool {
	if len(p) != len(q) {
		return false
	}
	for i := range p {
		if !elemEq(p[i], q[i]) {
			return false
		}
	}
	return true
}

// Concat joins paths
func Concat(a, b Path) Path {
	out := make(Path, 0, len(a)+len(b))
	out = append(out, a...)
	return append(out, b...)
}

// Parent is the path without its last element
func (p Path) Parent() Path {
	if len(p) == 0 {
		return p
	}
	return p[:len(p)-1]
}

// Generic strips keys: /c/l[k=x]/v -> /c/l/v  (used to find the schema node)
func (p Path) Generic() string {
	var b strings.Builder
	for _, e := range p {
		b.WriteByte('/')
		b.WriteString(e.Name)
	}
	if len(p) == 0 {
		return "/"
	}
	return b.String()
}
