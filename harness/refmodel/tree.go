package refmodel

import (
	"fmt"
	"sort"
	"strings"
)

// LeafEntry is one configured leaf
type LeafEntry struct {
	P Path
	V Val
}

// Tree is a set of configured leaves keyed by canonical path text
type Tree map[string]LeafEntry

// Clone copies the tree
func (t Tree) Clone() Tree {
	o := make(Tree, len(t))
	for k, v := range t {
		o[k] = v
	}
	return o
}

// Set sets a leaf
func (t Tree) Set(p Path, v Val) { t[p.String()] = LeafEntry{P: p, V: v} }

// Delete removes the addressed node and everything beneath it, at path-element boundaries
func (t Tree) Delete(p Path) int {
	n := 0
	for k, le := range t {
		if le.P.Under(p) {
			delete(t, k)
			n++
		}
	}
	return n
}

// Op is one operation of a Set request after target / prefix resolution
type Op struct {
	Target string
	Del    bool
	P      Path
	V      Val
	// Literal: the path is taken as it stands (a key-leaf delete produced by a rollback removes the leaf it
	// restores the absence of, it does not address the entry)
	Literal bool
}

func (o Op) String() string {
	if o.Del {
		return fmt.Sprintf("%s:-%s", o.Target, o.P)
	}
	return fmt.Sprintf("%s:+%s=%s", o.Target, o.P, o.V.Pretty())
}

// ApplyOps applies the operations that concern one target with gNMI semantics:
// all deletes first, then the updates in request order. A delete that addresses a list key
// leaf addresses its list entry.
func (t Tree) ApplyOps(s *Schema, target string, ops []Op) {
	for _, o := range ops {
		if o.Target == target && o.Del {
			p := o.P
			if s != nil && !o.Literal {
				if n := s.NodeOf(p); n != nil && n.IsKeyLeaf() {
					p = p.Parent()
				}
			}
			t.Delete(p)
		}
	}
	for _, o := range ops {
		if o.Target == target && !o.Del {
			t.Set(o.P, o.V)
		}
	}
}

// Diff lists differences between what was observed (t) and what the model expects (want)
func (t Tree) Diff(want Tree) []string {
	var out []string
	for k, le := range t {
		w, ok := want[k]
		if !ok {
			out = append(out, fmt.Sprintf("extra %s=%s", k, le.V.Pretty()))
		} else if w.V != le.V {
			out = append(out, fmt.Sprintf("value %s=%s want %s", k, le.V.Pretty(), w.V.Pretty()))
		}
	}
	for k, le := range want {
		if _, ok := t[k]; !ok {
			out = append(out, fmt.Sprintf("missing %s=%s", k, le.V.Pretty()))
		}
	}
	sort.Strings(out)
	return out
}

// String renders the tree
func (t Tree) String() string {
	var ks []string
	for k, le := range t {
		ks = append(ks, k+"="+le.V.Pretty())
	}
	sort.Strings(ks)
	return "{" + strings.Join(ks, ", ") + "}"
}

// WithoutKeyLeaves returns the tree without list key leaves (they are implied by their entry)
func (t Tree) WithoutKeyLeaves(s *Schema) Tree {
	o := Tree{}
	for k, le := range t {
		if n := s.NodeOf(le.P); n != nil && n.IsKeyLeaf() {
			continue
		}
		o[k] = le
	}
	return o
}

// Verdict is the deterministic validation function of the synthetic model plugin, shared by
// the fake plugin (which applies it to the flattened document it was sent) and by the
// reference model (which applies it to its own candidate configuration).
//   - a string leaf containing POISON is invalid
//   - /a/b and /a/c must not hold the same value when that value starts with EQ (a cross-leaf
//     constraint: only visible when the complete merged configuration is validated)
//   - /c/l[k=*]/n must be below 1000000
func Verdict(t Tree) (bool, string) {
	var ks []string
	for k := range t {
		ks = append(ks, k)
	}
	sort.Strings(ks)
	for _, k := range ks {
		le := t[k]
		if strings.Contains(string(le.V), "POISON") {
			return false, "poison value at " + k
		}
		if len(le.P) == 3 && le.P[0].Name == "c" && le.P[1].Name == "l" && le.P[2].Name == "n" {
			s := string(le.V)
			if strings.HasPrefix(s, "u:") && len(s) > 8 {
				return false, "range violation at " + k
			}
		}
	}
	b, okb := t["/a/b"]
	cc, okc := t["/a/c"]
	if okb && okc && b.V == cc.V && strings.HasPrefix(b.V.Str(), "EQ") {
		return false, "/a/b and /a/c must differ"
	}
	return true, ""
}

// DeviceRejects is the deterministic refusal rule of the fake device: a request that carries a
// string value containing DEVREJECT is refused as a whole.
func DeviceRejects(ops []Op) bool {
	for _, o := range ops {
		if !o.Del && strings.Contains(string(o.V), "DEVREJECT") {
			return true
		}
	}
	return false
}
