package refmodel

import (
	"sort"
	"strings"
)

// NodeKind is the kind of a schema node
type NodeKind int

// schema node kinds
const (
	Container NodeKind = iota
	List
	Leaf
	LeafList
)

// Node is a node of the synthetic YANG-like schema
type Node struct {
	Name     string
	Kind     NodeKind
	Keys     []string // list: key leaf names, sorted
	Type     string   // leaf: string int uint bool bytes decimal float
	Width    int      // int/uint: 8 16 32 64; decimal: precision
	RO       bool
	Children []*Node
	parent   *Node
}

// Schema is a synthetic model
type Schema struct {
	Name    string
	Version string
	Root    *Node
	byGen   map[string]*Node
}

func c(name string, ch ...*Node) *Node { return &Node{Name: name, Kind: Container, Children: ch} }
func l(name string, keys []string, ch ...*Node) *Node {
	k := append([]string(nil), keys...)
	sort.Strings(k)
	return &Node{Name: name, Kind: List, Keys: k, Children: ch}
}
func lf(name, typ string, width int) *Node {
	return &Node{Name: name, Kind: Leaf, Type: typ, Width: width}
}
func ll(name, typ string, width int) *Node {
	return &Node{Name: name, Kind: LeafList, Type: typ, Width: width}
}

// DefaultSchema is the schema used by most checks. It contains the hostile shapes the
// properties name: sibling names that are textual prefixes of each other, single- and
// two-key lists, a nested list, keys that are prefixes of each other are produced by the
// generators, every value type and width, and a read-only subtree.
func DefaultSchema() *Schema {
	root := c("",
		lf("foo", "string", 0), lf("bar", "string", 0), lf("goo", "string", 0), lf("fo", "string", 0),
		c("a", lf("b", "string", 0), lf("c", "string", 0), lf("bc", "string", 0), c("d", lf("e", "string", 0), lf("ee", "string", 0))),
		c("ab", lf("x", "string", 0)),
		c("cont", lf("leaf2", "string", 0), lf("leaf2a", "string", 0)),
		c("cont-x", lf("leaf", "string", 0)),
		c("c",
			l("l", []string{"k"}, lf("k", "string", 0), lf("v", "string", 0), lf("n", "uint", 64),
				c("sub", lf("x", "string", 0)),
				l("in", []string{"id"}, lf("id", "uint", 8), lf("w", "string", 0))),
			l("m", []string{"k1", "k2"}, lf("k1", "string", 0), lf("k2", "string", 0), lf("v", "string", 0)),
			l("lx", []string{"k"}, lf("k", "string", 0), lf("v", "string", 0)),
			l("lb", []string{"on"}, lf("on", "bool", 0), lf("v", "string", 0)),
		),
		c("t",
			lf("i8", "int", 8), lf("i16", "int", 16), lf("i32", "int", 32), lf("i64", "int", 64),
			lf("u8", "uint", 8), lf("u16", "uint", 16), lf("u32", "uint", 32), lf("u64", "uint", 64),
			lf("bool", "bool", 0), lf("dec", "decimal", 3), lf("flt", "float", 0), lf("bytes", "bytes", 0),
			ll("ll-str", "string", 0), ll("ll-i32", "int", 32), ll("ll-i64", "int", 64), ll("ll-u16", "uint", 16), ll("ll-u64", "uint", 64),
			ll("ll-bool", "bool", 0), ll("ll-bytes", "bytes", 0), ll("ll-dec", "decimal", 2), ll("ll-flt", "float", 0),
		),
		&Node{Name: "state", Kind: Container, RO: true, Children: []*Node{{Name: "counter", Kind: Leaf, Type: "uint", Width: 64, RO: true}}},
	)
	s := &Schema{Name: "synth", Version: "1.0.0", Root: root}
	s.index()
	return s
}

func (s *Schema) index() {
	s.byGen = map[string]*Node{}
	var walk func(n *Node, gen string)
	walk = func(n *Node, gen string) {
		for _, ch := range n.Children {
			ch.parent = n
			g := gen + "/" + ch.Name
			s.byGen[g] = ch
			walk(ch, g)
		}
	}
	walk(s.Root, "")
}

// Lookup returns the schema node of a generic (key-less) path such as /c/l/v
func (s *Schema) Lookup(generic string) *Node { return s.byGen[generic] }

// NodeOf returns the schema node a concrete path designates (nil if none)
func (s *Schema) NodeOf(p Path) *Node { return s.byGen[p.Generic()] }

// IsKeyLeaf tells whether the node is a key leaf of its parent list
func (n *Node) IsKeyLeaf() bool {
	if n.Kind != Leaf || n.parent == nil || n.parent.Kind != List {
		return false
	}
	for _, k := range n.parent.Keys {
		if k == n.Name {
			return true
		}
	}
	return false
}

// RWPath is one entry of the model's read-write path list, in the shape real plugins emit
type RWPath struct {
	Path     string // e.g. /c/m[k1=*][k2=*]/v
	Node     *Node
	IsKey    bool
	AttrName string
}

// RWPaths lists the writable leaves
func (s *Schema) RWPaths() []RWPath {
	var out []RWPath
	var walk func(n *Node, prefix string)
	walk = func(n *Node, prefix string) {
		for _, ch := range n.Children {
			if ch.RO {
				continue
			}
			p := prefix + "/" + ch.Name
			switch ch.Kind {
			case Container:
				walk(ch, p)
			case List:
				for _, k := range ch.Keys {
					p += "[" + k + "=*]"
				}
				walk(ch, p)
			default:
				out = append(out, RWPath{Path: p, Node: ch, IsKey: ch.IsKeyLeaf(), AttrName: ch.Name})
			}
		}
	}
	walk(s.Root, "")
	return out
}

// ROPaths lists the read-only subtrees as (path, subpaths)
func (s *Schema) ROPaths() map[string][]string {
	out := map[string][]string{}
	for _, ch := range s.Root.Children {
		if ch.RO {
			var subs []string
			for _, g := range ch.Children {
				subs = append(subs, "/"+g.Name)
			}
			out["/"+ch.Name] = subs
		}
	}
	return out
}

// Valid reports whether a concrete path designates a schema node with exactly the keys the schema demands on every list element
func (s *Schema) Valid(p Path) bool {
	n := s.Root
	for _, e := range p {
		var next *Node
		for _, ch := range n.Children {
			if ch.Name == e.Name {
				next = ch
			}
		}
		if next == nil {
			return false
		}
		if next.Kind == List {
			if len(e.Keys) != len(next.Keys) {
				return false
			}
			for i, kv := range e.Keys {
				if kv.K != next.Keys[i] {
					return false
				}
			}
		} else if len(e.Keys) != 0 {
			return false
		}
		n = next
	}
	return true
}

// HasSiblingPrefix tells whether the name of the node is a strict textual prefix (or extension) of a sibling's name
func (n *Node) HasSiblingPrefix() bool {
	if n.parent == nil {
		return false
	}
	for _, sib := range n.parent.Children {
		if sib != n && (strings.HasPrefix(sib.Name, n.Name) || strings.HasPrefix(n.Name, sib.Name)) {
			return true
		}
	}
	return false
}
