package refmodel

import (
	"bytes"
	"encoding/base64"
	"encoding/hex"
	"encoding/json"
	"fmt"
	"math"
	"strconv"
	"strings"
)

// JSONKind describes the JSON type a leaf was rendered with (checked by C17)
type JSONKind string

// FlatLeaf is a leaf found in a document
type FlatLeaf struct {
	P    Path
	V    Val
	Kind JSONKind // string number bool array-of-string array-of-number ...
	Raw  string
}

// Flatten walks an RFC 7951 style document with the schema and returns its leaves.
// List entries are identified by the key members of their objects. Problems (unknown members,
// entries without keys, wrong JSON shapes) are returned as strings.
func Flatten(s *Schema, doc []byte) (map[string]FlatLeaf, []string) {
	out := map[string]FlatLeaf{}
	var problems []string
	dec := json.NewDecoder(bytes.NewReader(doc))
	dec.UseNumber()
	var root interface{}
	if len(bytes.TrimSpace(doc)) == 0 {
		return out, nil
	}
	if err := dec.Decode(&root); err != nil {
		return out, []string{"document is not JSON: " + err.Error()}
	}
	obj, ok := root.(map[string]interface{})
	if !ok {
		return out, []string{"document root is not an object"}
	}
	var walk func(obj map[string]interface{}, n *Node, at Path)
	walk = func(obj map[string]interface{}, n *Node, at Path) {
		for name, val := range obj {
			bare := name
			if i := strings.Index(name, ":"); i >= 0 {
				bare = name[i+1:]
			}
			var ch *Node
			for _, c := range n.Children {
				if c.Name == name || c.Name == bare {
					ch = c
				}
			}
			if ch == nil {
				problems = append(problems, fmt.Sprintf("member %q at %s is not in the schema", name, at))
				continue
			}
			switch ch.Kind {
			case Container:
				m, ok := val.(map[string]interface{})
				if !ok {
					problems = append(problems, fmt.Sprintf("container %s%s/%s is not an object", "", at, name))
					continue
				}
				walk(m, ch, Concat(at, Path{{Name: ch.Name}}))
			case List:
				arr, ok := val.([]interface{})
				if !ok {
					problems = append(problems, fmt.Sprintf("list %s/%s is not an array", at, name))
					continue
				}
				seen := map[string]bool{}
				for _, e := range arr {
					m, ok := e.(map[string]interface{})
					if !ok {
						problems = append(problems, fmt.Sprintf("entry of list %s/%s is not an object", at, name))
						continue
					}
					el := Elem{Name: ch.Name}
					bad := false
					for _, k := range ch.Keys {
						kv, ok := m[k]
						if !ok {
							problems = append(problems, fmt.Sprintf("entry of list %s/%s lacks key %s", at, name, k))
							bad = true
							continue
						}
						el.Keys = append(el.Keys, KV{k, keyText(kv)})
					}
					if bad {
						continue
					}
					ep := Concat(at, Path{el})
					if seen[ep.String()] {
						problems = append(problems, fmt.Sprintf("list entry %s appears twice (one entry split in two)", ep))
					}
					seen[ep.String()] = true
					walk(m, ch, ep)
				}
			case Leaf, LeafList:
				p := Concat(at, Path{{Name: ch.Name}})
				v, kind, raw, err := leafVal(ch, val)
				if err != "" {
					problems = append(problems, fmt.Sprintf("leaf %s: %s", p, err))
				}
				out[p.String()] = FlatLeaf{P: p, V: v, Kind: kind, Raw: raw}
			}
		}
	}
	walk(obj, s.Root, nil)
	return out, problems
}

func keyText(v interface{}) string {
	switch x := v.(type) {
	case string:
		return x
	case json.Number:
		return x.String()
	case bool:
		return strconv.FormatBool(x)
	}
	return fmt.Sprint(v)
}

func scalarVal(n *Node, v interface{}) (string, JSONKind, string) {
	switch x := v.(type) {
	case string:
		switch n.Type {
		case "string":
			return "s:" + x, "string", ""
		case "int":
			if _, err := strconv.ParseInt(x, 10, 64); err != nil {
				return "?:" + x, "string", "not an integer"
			}
			return "i:" + x, "string", ""
		case "uint":
			if _, err := strconv.ParseUint(x, 10, 64); err != nil {
				return "?:" + x, "string", "not an unsigned integer"
			}
			return "u:" + x, "string", ""
		case "bytes":
			b, err := base64.StdEncoding.DecodeString(x)
			if err != nil {
				return "?:" + x, "string", "not base64"
			}
			return "y:" + hex.EncodeToString(b), "string", ""
		case "decimal":
			d, p, ok := parseDecimal(x)
			if !ok {
				return "?:" + x, "string", "not a decimal"
			}
			return fmt.Sprintf("d:%d:%d", d, p), "string", ""
		case "float":
			f, err := strconv.ParseFloat(x, 64)
			if err != nil {
				return "?:" + x, "string", "not a float"
			}
			return fmt.Sprintf("f:%08x", math.Float32bits(float32(f))), "string", ""
		}
		if n.Type == "bool" && (x == "true" || x == "false") {
			// (as for the numeric types, the JSON kind is reported, not judged here: a key that a document shows
			// only because it identifies its entry is rendered from the path's text)
			return "b:" + x, "string", ""
		}
		return "?:" + x, "string", "string for " + n.Type
	case json.Number:
		switch n.Type {
		case "int":
			return "i:" + x.String(), "number", ""
		case "uint":
			return "u:" + x.String(), "number", ""
		case "float":
			f, _ := x.Float64()
			return fmt.Sprintf("f:%08x", math.Float32bits(float32(f))), "number", ""
		case "decimal":
			d, p, ok := parseDecimal(x.String())
			if !ok {
				return "?:" + x.String(), "number", "not a decimal"
			}
			return fmt.Sprintf("d:%d:%d", d, p), "number", ""
		}
		return "?:" + x.String(), "number", "number for " + n.Type
	case bool:
		if n.Type == "bool" {
			return "b:" + strconv.FormatBool(x), "bool", ""
		}
		return "?:" + strconv.FormatBool(x), "bool", "bool for " + n.Type
	case nil:
		return "?:null", "null", "null"
	}
	return "?:" + fmt.Sprint(v), "other", "unexpected JSON value"
}

func parseDecimal(s string) (int64, int, bool) {
	neg := strings.HasPrefix(s, "-")
	t := strings.TrimPrefix(s, "-")
	prec := 0
	if i := strings.Index(t, "."); i >= 0 {
		prec = len(t) - i - 1
		t = t[:i] + t[i+1:]
	}
	d, err := strconv.ParseInt(t, 10, 64)
	if err != nil {
		return 0, 0, false
	}
	if neg {
		d = -d
	}
	return d, prec, true
}

func leafVal(n *Node, v interface{}) (Val, JSONKind, string, string) {
	raw, _ := json.Marshal(v)
	if n.Kind == LeafList {
		arr, ok := v.([]interface{})
		if !ok {
			s, k, e := scalarVal(n, v)
			if e == "" {
				e = "leaf-list is not an array"
			}
			return Val(s), k, string(raw), e
		}
		var parts []string
		kind := JSONKind("array-of-nothing")
		errs := ""
		for _, e := range arr {
			s, k, er := scalarVal(n, e)
			parts = append(parts, s)
			kind = "array-of-" + k
			if er != "" {
				errs = er
			}
		}
		return Val("l:" + strings.Join(parts, "\x1f")), kind, string(raw), errs
	}
	s, k, e := scalarVal(n, v)
	return Val(s), k, string(raw), e
}

// FlatTree converts flattened leaves into a Tree
func FlatTree(m map[string]FlatLeaf) Tree {
	t := Tree{}
	for k, fl := range m {
		t[k] = LeafEntry{P: fl.P, V: fl.V}
	}
	return t
}
